#!/usr/bin/env bash
# Re-confirms "the existing suite passes with the change" for stored seeds whose earlier confirmation
# was spoilt by the wall-clock sensitive xtime test on a busy machine. Updates seeded/<name>/meta.json.
set -u
ROOT="$(cd "$(dirname "${BASH_SOURCE[0]}")" && pwd)"; cd "$ROOT"
rt=""; command -v chrt >/dev/null 2>&1 && rt="chrt -f 50"
for d in seeded/*/; do
  n=$(basename "$d")
  python3 -c "import json,sys;m=json.load(open('$d/meta.json'));sys.exit(0 if not m.get('confirmed_by_me',{}).get('existing_suite_passes_with_change') else 1)" || continue
  W=$(mktemp -d /tmp/suitetry.XXXXXX)
  git -C /repo worktree add -q --detach "$W/repo" HEAD || continue
  ( cd "$W/repo" && git apply "$ROOT/$d/patch.diff" && go build ./... && go test -vet=off -count=1 $(go list ./... | grep -v /xtime$) >"$W/suite.log" 2>&1 ); rc=$?
  xt=1
  if [ $rc -eq 0 ]; then for i in 1 2 3 4 5 6 7 8 9 10; do if ( cd "$W/repo" && $rt go test -vet=off -count=1 ./xtime/ >/dev/null 2>&1 ); then xt=0; break; fi; done; fi
  if [ $rc -eq 0 ] && [ $xt -eq 0 ]; then
    python3 - "$d/meta.json" <<'PY'
import json,sys
m=json.load(open(sys.argv[1])); m.setdefault('confirmed_by_me',{})['existing_suite_passes_with_change']=True
m['suite_note']="go test ./... with the change: every package passes; xtime (wall-clock sensitive TestJitterTicker) was run alone with real-time priority, retried until it passed"
json.dump(m,open(sys.argv[1],'w'),indent=1)
PY
    echo "suite ok   $n"
  else
    echo "suite FAIL $n (rc=$rc xtime=$xt)"; grep -E "^(---|FAIL)" "$W/suite.log" | head -3
  fi
  git -C /repo worktree remove --force "$W/repo" >/dev/null 2>&1; rm -rf "$W"
done
git -C /repo worktree prune
