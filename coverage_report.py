#!/usr/bin/env python3
"""coverage_report.py <rewritten juniper dir> <dir with *.out cover profiles>
Statement coverage of the library under the simulation worlds (a reach measure, not a check):
per package, per function, and the uncovered blocks with the first line of their source."""
import sys, os, re, glob, collections
src, outdir = sys.argv[1], sys.argv[2]
MOD = 'github.com/bradenaw/juniper/'
blocks = {}          # (file, sl, sc, el, ec) -> [nstmt, set(profiles that hit it)]
for f in sorted(glob.glob(os.path.join(outdir, '*.out'))):
    name = os.path.basename(f)[:-4]
    for line in open(f):
        if line.startswith('mode:'): continue
        m = re.match(r'(.+):(\d+)\.(\d+),(\d+)\.(\d+) (\d+) (\d+)$', line.strip())
        if not m: continue
        file = m.group(1)
        if not file.startswith(MOD) or 'verif_errgroup' in file: continue
        key = (file[len(MOD):],) + tuple(int(x) for x in m.group(2, 3, 4, 5))
        b = blocks.setdefault(key, [int(m.group(6)), set()])
        if int(m.group(7)) > 0: b[1].add(name)
funcs = {}           # file -> list of (startline, endline, name)
for file in {k[0] for k in blocks}:
    path = os.path.join(src, file)
    L = open(path).read().split('\n')
    out = []; i = 0
    while i < len(L):
        m = re.match(r'func (\([^)]*\) )?([A-Za-z0-9_]+)', L[i])
        if m:
            recv = ''
            if m.group(1):
                r = re.search(r'\*?([A-Za-z0-9_]+)(\[[^\]]*\])?\s*\)\s*$', m.group(1))
                recv = (r.group(1) + '.') if r else ''
            j = i
            while j < len(L) and L[j] != '}': j += 1
            out.append((i + 1, j + 1, recv + m.group(2))); i = j
        i += 1
    funcs[file] = (out, L)
def func_of(file, line):
    for a, b, n in funcs[file][0]:
        if a <= line <= b: return n
    return '(top level)'
pk = collections.defaultdict(lambda: [0, 0]); fn = collections.defaultdict(lambda: [0, 0]); unc = collections.defaultdict(list)
for (file, sl, sc, el, ec), (n, hit) in sorted(blocks.items()):
    p = os.path.dirname(file) or '.'
    f = func_of(file, sl)
    pk[p][1] += n; fn[(file, f)][1] += n
    if hit: pk[p][0] += n; fn[(file, f)][0] += n
    else: unc[(file, f)].append((sl, el, n, funcs[file][1][sl - 1].strip()[:100]))
print("Statement coverage of the library (rewritten copy of the working tree) under the simulation worlds,")
print("union over all worlds/properties. Line numbers refer to the rewritten copy. Non-deciding reach measure.\n")
tot = [sum(v[0] for v in pk.values()), sum(v[1] for v in pk.values())]
print("TOTAL %d/%d statements (%.1f%%)\n" % (tot[0], tot[1], 100.0 * tot[0] / max(1, tot[1])))
for p in sorted(pk): print("%-28s %5d/%-5d %5.1f%%" % (p, pk[p][0], pk[p][1], 100.0 * pk[p][0] / max(1, pk[p][1])))
print("\nFunctions not fully covered (covered/total statements), with their uncovered blocks:")
for (file, f) in sorted(fn):
    c, t = fn[(file, f)]
    if c == t: continue
    print("\n%s  %s  %d/%d" % (file, f, c, t))
    for sl, el, n, text in unc[(file, f)]: print("    %d-%d (%d stmts): %s" % (sl, el, n, text))
