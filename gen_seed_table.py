#!/usr/bin/env python3
"""Prints the markdown table of seeded changes (seeded/*/meta.json) for DESIGN.md §10.4."""
import json, glob, os, re
rows=[]
for f in sorted(glob.glob(os.path.join(os.path.dirname(os.path.abspath(__file__)),'seeded','*','meta.json')), key=lambda p:(p.split('/')[-2].split('-')[0], int(p.split('/')[-2].split('-')[1]))):
    m=json.load(open(f)); name=f.split('/')[-2]
    sigs=[]
    for l in m.get('checks_run',[]):
        mm=re.search(r'signature: (\S+)', l)
        if mm and mm.group(1) not in sigs: sigs.append(mm.group(1))
    det='yes' if m.get('detected') else ('no (judged not a violation)' if m.get('judged') else ('no (out of reach: '+m['out_of_reach'].split(':')[0]+')' if m.get('out_of_reach') else '**NO**'))
    summ=m.get('summary','').replace('|','/').replace('\n',' ')
    if len(summ)>170: summ=summ[:167]+'...'
    first=m.get('first_result','')+(' JUDGED: '+m['judged'] if m.get('judged') else '')+(' OUT OF REACH: '+m['out_of_reach'] if m.get('out_of_reach') else '')
    rows.append(f"| {name} | {summ} | {det} | {', '.join('`'+s+'`' for s in sigs[:3])} | {first} |")
print("| seed | change | caught by its property's quick check | signatures | note |")
print("|---|---|---|---|---|")
print("\n".join(rows))
