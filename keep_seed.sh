#!/usr/bin/env bash
# keep_seed.sh <seed out dir> <name> : runs try_seed.sh and stores the seed under /verif/seeded/<name>/
# together with what was run and observed.
set -u
ROOT="$(cd "$(dirname "${BASH_SOURCE[0]}")" && pwd)"
D="$1"; NAME="$2"; shift 2
out=$("$ROOT/try_seed.sh" "$D" "$@" 2>&1 | grep -v "^WARNING")
echo "$out"
mkdir -p "$ROOT/seeded/$NAME"
cp "$D/patch.diff" "$ROOT/seeded/$NAME/patch.diff"
cp "$D"/*_test.go "$ROOT/seeded/$NAME/" 2>/dev/null
for f in "$ROOT/seeded/$NAME"/*_test.go; do [ -f "$f" ] && mv "$f" "$f.txt"; done   # not compiled as part of /verif
python3 - "$D/meta.json" "$ROOT/seeded/$NAME/meta.json" "$out" <<'PY'
import json,sys
m=json.load(open(sys.argv[1]))
out=sys.argv[3]
import os
old={}
if os.path.exists(sys.argv[2]):
    try: old=json.load(open(sys.argv[2]))
    except Exception: old={}
if "first_result" in old: m["first_result"]=old["first_result"]
m["breaks_property"]=m.get("property")
m["confirmed_by_me"]={"demo_passes_on_clean_tree":"demo on clean tree: PASS" in out,"demo_fails_with_change":"demo with change: FAIL" in out,"existing_suite_passes_with_change":"existing suite with change: PASS" in out}
det=[l.strip() for l in out.splitlines() if l.startswith("check ") or "signature:" in l or l.startswith("VIOLATION")]
m["checks_run"]=det
m["detected"]=any(l.startswith("check ") and "exit=1" in l for l in det)
m["what_i_ran"]="try_seed.sh: scratch worktree of /repo HEAD; demo test on clean tree, git apply patch.diff, demo test, go test ./... (xtime re-run alone if its wall-clock test flakes), then ./verif.sh check <property> --tier quick with VERIF_REPO pointing at the scratch worktree; worktree removed afterwards"
json.dump(m,open(sys.argv[2],"w"),indent=1)
PY
