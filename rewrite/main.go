// Command rewrite instruments a scratch copy of bradenaw/juniper for the deterministic simulator.
//
// It is purely mechanical and type-directed; it edits source text in place (so comments, layout and
// everything that is not a synchronisation operation stay byte-identical):
//
//	import "sync", "sync/atomic", "context", "time", "math/rand", "golang.org/x/sync/errgroup"
//	    -> the verifsim drop-ins (same package names, so nothing else changes)
//	c <- v            -> vsim.Send(c, v, site)
//	<-c               -> vsim.Recv(c, site)          v, ok := <-c -> vsim.Recv2(c, site)
//	close(c)          -> vsim.Close(c, site)
//	for x := range ch -> three-clause loop over vsim.Recv2 (one x per loop: pre-1.22 semantics)
//	select            -> poll the arms in tape order, else block in the original select
//	go f(...)         -> vsim.Go(site, ...)
//	reflect.Select    -> vsim.ReflectSelect       runtime.GOMAXPROCS -> vsim.GOMAXPROCS
//	a statement calling Err()/Done() on a context.Context gets a vsim.Yield(site) in front
//
// Anything it does not understand is an error (exit status 2 of the check), never a guess.
package main

import (
	"bytes"
	"flag"
	"fmt"
	"go/ast"
	"go/format"
	"go/token"
	"go/types"
	"os"
	"path/filepath"
	"sort"
	"strings"

	"golang.org/x/tools/go/packages"
)

var importMap = map[string]string{
	"sync":        "verifsim/sync",
	"sync/atomic": "verifsim/atomic",
	"context":     "verifsim/context",
	"time":        "verifsim/time",
	"math/rand":   "verifsim/rand",
}

func main() {
	dir := flag.String("dir", "", "root of the scratch module to rewrite in place")
	errgroupPath := flag.String("errgroup", "", "import path that replaces golang.org/x/sync/errgroup")
	tags := flag.String("tags", "verif", "build tags")
	verbose := flag.Bool("v", false, "verbose")
	flag.Parse()
	if *dir == "" {
		fmt.Fprintln(os.Stderr, "usage: rewrite -dir <module root>")
		os.Exit(2)
	}
	if *errgroupPath != "" {
		importMap["golang.org/x/sync/errgroup"] = *errgroupPath
	}
	cfg := &packages.Config{
		Mode: packages.NeedName | packages.NeedFiles | packages.NeedCompiledGoFiles | packages.NeedSyntax |
			packages.NeedTypes | packages.NeedTypesInfo | packages.NeedImports | packages.NeedDeps,
		Dir:        *dir,
		Tests:      false,
		BuildFlags: []string{"-tags=" + *tags},
		Env:        os.Environ(),
	}
	pkgs, err := packages.Load(cfg, "./...")
	if err != nil {
		fmt.Fprintln(os.Stderr, "rewrite: load:", err)
		os.Exit(2)
	}
	bad := false
	for _, p := range pkgs {
		for _, e := range p.Errors {
			fmt.Fprintf(os.Stderr, "rewrite: %s: %v\n", p.PkgPath, e)
			bad = true
		}
	}
	if bad {
		os.Exit(2)
	}
	total := 0
	for _, p := range pkgs {
		for i, f := range p.Syntax {
			name := p.CompiledGoFiles[i]
			src, err := os.ReadFile(name)
			if err != nil {
				fmt.Fprintln(os.Stderr, "rewrite:", err)
				os.Exit(2)
			}
			rel, _ := filepath.Rel(*dir, name)
			r := &rw{fset: p.Fset, info: p.TypesInfo, src: src, file: f, rel: rel, tf: p.Fset.File(f.Pos())}
			out, n, err := r.run()
			if err != nil {
				fmt.Fprintf(os.Stderr, "rewrite: %s: %v\n", rel, err)
				os.Exit(2)
			}
			if n == 0 {
				continue
			}
			total += n
			fm, err := format.Source(out)
			if err != nil {
				os.WriteFile(name+".rewrite-failed", out, 0o644)
				fmt.Fprintf(os.Stderr, "rewrite: %s: result does not parse: %v\n", rel, err)
				os.Exit(2)
			}
			if err := os.WriteFile(name, fm, 0o644); err != nil {
				fmt.Fprintln(os.Stderr, "rewrite:", err)
				os.Exit(2)
			}
			if *verbose {
				fmt.Printf("rewrite: %s: %d edits\n", rel, n)
			}
		}
	}
	if *verbose {
		fmt.Printf("rewrite: %d edits in total\n", total)
	}
}

type edit struct {
	start, end int
	text       string
}

type rw struct {
	fset      *token.FileSet
	tf        *token.File
	info      *types.Info
	src       []byte
	file      *ast.File
	rel       string
	n         int
	tmp       int
	needYield map[ast.Stmt]bool
	keepAlive map[string]bool
	usesSim   bool
	err       error
}

func (r *rw) off(p token.Pos) int { return r.tf.Offset(p) }

func (r *rw) site(n ast.Node) string {
	return fmt.Sprintf("%q", fmt.Sprintf("%s:%d", filepath.ToSlash(r.rel), r.fset.Position(n.Pos()).Line))
}

func (r *rw) fail(n ast.Node, format string, args ...any) {
	if r.err == nil {
		r.err = fmt.Errorf("%s: %s", r.fset.Position(n.Pos()), fmt.Sprintf(format, args...))
	}
}

func (r *rw) next() string {
	r.tmp++
	return fmt.Sprintf("_vs%d", r.tmp)
}

func (r *rw) run() ([]byte, int, error) {
	r.needYield = map[ast.Stmt]bool{}
	r.keepAlive = map[string]bool{}
	r.markYields()
	var edits []edit
	// imports
	for _, imp := range r.file.Imports {
		path := strings.Trim(imp.Path.Value, "\"`")
		if to, ok := importMap[path]; ok {
			edits = append(edits, edit{r.off(imp.Path.Pos()), r.off(imp.Path.End()), fmt.Sprintf("%q", to)})
			r.n++
		}
	}
	for _, d := range r.file.Decls {
		if gd, ok := d.(*ast.GenDecl); ok && gd.Tok == token.IMPORT {
			continue
		}
		edits = append(edits, r.editsIn(d)...)
	}
	resets := r.globalResets()
	if r.err != nil {
		return nil, 0, r.err
	}
	if r.usesSim {
		edits = append(edits, edit{r.off(r.file.Name.End()), r.off(r.file.Name.End()), "\n\nimport vsim \"verifsim/sim\"\n"})
	}
	out := applyEdits(r.src, 0, edits)
	var keep []string
	for k := range r.keepAlive {
		keep = append(keep, k)
	}
	sort.Strings(keep)
	for _, k := range keep {
		out = append(out, []byte("\nvar _ = "+k+"\n")...)
	}
	out = append(out, []byte(resets)...)
	return out, r.n, nil
}

// globalResets makes every simulated run start from the package state a fresh process would have:
// each package-level variable of the file (other than error sentinels, whose identity callers may
// hold on to) is given its initial value again before a run. Without it a change that introduces
// package-level state (a cache, a free list) would make runs depend on the runs before them, and a
// violation would not replay from its own tape.
func (r *rw) globalResets() string {
	errType := types.Universe.Lookup("error").Type()
	var b strings.Builder
	for _, d := range r.file.Decls {
		gd, ok := d.(*ast.GenDecl)
		if !ok || gd.Tok != token.VAR {
			continue
		}
		for _, sp := range gd.Specs {
			vs := sp.(*ast.ValueSpec)
			var names []string
			skip := false
			for _, id := range vs.Names {
				if id.Name == "_" {
					skip = true
					break
				}
				obj := r.info.Defs[id]
				if obj == nil || types.Identical(obj.Type(), errType) {
					skip = true
					break
				}
				names = append(names, id.Name)
			}
			if skip || len(names) == 0 {
				continue
			}
			switch {
			case len(vs.Values) > 0:
				var vals []string
				for _, v := range vs.Values {
					vals = append(vals, r.text(v))
				}
				fmt.Fprintf(&b, "\t\t%s = %s\n", strings.Join(names, ", "), strings.Join(vals, ", "))
			case vs.Type != nil:
				for _, n := range names {
					fmt.Fprintf(&b, "\t\t%s = *new(%s)\n", n, r.text(vs.Type))
				}
			}
		}
	}
	if b.Len() == 0 {
		return ""
	}
	r.usesSim = true
	r.n++
	return "\nfunc init() {\n\tvsim.RegisterReset(func() {\n" + b.String() + "\t})\n}\n"
}

func applyEdits(src []byte, base int, edits []edit) []byte {
	sort.Slice(edits, func(i, j int) bool {
		if edits[i].start != edits[j].start {
			return edits[i].start < edits[j].start
		}
		return edits[i].end < edits[j].end
	})
	var out bytes.Buffer
	pos := base
	for _, e := range edits {
		if e.start < pos {
			panic(fmt.Sprintf("overlapping edits at %d", e.start))
		}
		out.Write(src[pos-base : e.start-base])
		out.WriteString(e.text)
		pos = e.end
	}
	out.Write(src[pos-base:])
	return out.Bytes()
}

// editsIn returns the edits for the outermost rewrite targets inside n (n itself included).
func (r *rw) editsIn(n ast.Node) []edit {
	var edits []edit
	ast.Inspect(n, func(m ast.Node) bool {
		if m == nil {
			return false
		}
		if txt, ok := r.target(m); ok {
			edits = append(edits, edit{r.off(m.Pos()), r.off(m.End()), txt})
			r.n++
			return false
		}
		return true
	})
	return edits
}

// text returns n's source with everything inside it rewritten (n itself too if it is a target).
func (r *rw) text(n ast.Node) string {
	start, end := r.off(n.Pos()), r.off(n.End())
	return string(applyEdits(r.src[start:end], start, r.editsIn(n)))
}

// inner returns n's source with the targets strictly inside it rewritten.
func (r *rw) inner(n ast.Node) string {
	start, end := r.off(n.Pos()), r.off(n.End())
	var edits []edit
	ast.Inspect(n, func(m ast.Node) bool {
		if m == nil {
			return false
		}
		if m == n {
			return true
		}
		if txt, ok := r.target(m); ok {
			edits = append(edits, edit{r.off(m.Pos()), r.off(m.End()), txt})
			r.n++
			return false
		}
		return true
	})
	return string(applyEdits(r.src[start:end], start, edits))
}

func (r *rw) list(stmts []ast.Stmt) string {
	if len(stmts) == 0 {
		return ""
	}
	start, end := r.off(stmts[0].Pos()), r.off(stmts[len(stmts)-1].End())
	var edits []edit
	for _, s := range stmts {
		edits = append(edits, r.editsIn(s)...)
	}
	return string(applyEdits(r.src[start:end], start, edits))
}

func unparen(e ast.Expr) ast.Expr {
	for {
		p, ok := e.(*ast.ParenExpr)
		if !ok {
			return e
		}
		e = p.X
	}
}

func isRecv(e ast.Expr) (*ast.UnaryExpr, bool) {
	u, ok := unparen(e).(*ast.UnaryExpr)
	if ok && u.Op == token.ARROW {
		return u, true
	}
	return nil, false
}

func (r *rw) isPkgCall(c *ast.CallExpr, pkgPath, name string) bool {
	sel, ok := c.Fun.(*ast.SelectorExpr)
	if !ok || sel.Sel.Name != name {
		return false
	}
	id, ok := sel.X.(*ast.Ident)
	if !ok {
		return false
	}
	pn, ok := r.info.Uses[id].(*types.PkgName)
	return ok && pn.Imported().Path() == pkgPath
}

func (r *rw) isCtxCall(c *ast.CallExpr) bool {
	sel, ok := c.Fun.(*ast.SelectorExpr)
	if !ok || (sel.Sel.Name != "Err" && sel.Sel.Name != "Done") {
		return false
	}
	t := r.info.TypeOf(sel.X)
	return t != nil && t.String() == "context.Context"
}

// target reports whether m is a construct to rewrite and returns its replacement.
func (r *rw) target(m ast.Node) (string, bool) {
	if s, ok := m.(ast.Stmt); ok && r.needYield[s] {
		delete(r.needYield, s)
		r.usesSim = true
		txt := "vsim.Yield(" + r.site(s) + ")\n" + r.text(s)
		r.needYield[s] = true
		return txt, true
	}
	switch x := m.(type) {
	case *ast.SendStmt:
		r.usesSim = true
		return fmt.Sprintf("vsim.Send(%s, %s, %s)", r.text(x.Chan), r.text(x.Value), r.site(x)), true
	case *ast.UnaryExpr:
		if x.Op == token.ARROW {
			r.usesSim = true
			return fmt.Sprintf("vsim.Recv(%s, %s)", r.text(x.X), r.site(x)), true
		}
	case *ast.AssignStmt:
		if len(x.Lhs) == 2 && len(x.Rhs) == 1 {
			if u, ok := isRecv(x.Rhs[0]); ok {
				r.usesSim = true
				return fmt.Sprintf("%s, %s %s vsim.Recv2(%s, %s)", r.text(x.Lhs[0]), r.text(x.Lhs[1]), x.Tok, r.text(u.X), r.site(x)), true
			}
		}
	case *ast.ValueSpec:
		if len(x.Names) == 2 && len(x.Values) == 1 {
			if _, ok := isRecv(x.Values[0]); ok {
				r.fail(x, "var v, ok = <-c is not supported by the rewriter")
			}
		}
	case *ast.CallExpr:
		if id, ok := x.Fun.(*ast.Ident); ok && id.Name == "close" && len(x.Args) == 1 {
			if _, ok := r.info.Uses[id].(*types.Builtin); ok {
				r.usesSim = true
				return fmt.Sprintf("vsim.Close(%s, %s)", r.text(x.Args[0]), r.site(x)), true
			}
		}
		if r.isPkgCall(x, "reflect", "Select") && len(x.Args) == 1 {
			r.usesSim = true
			r.keepAlive["reflect.Select"] = true
			return fmt.Sprintf("vsim.ReflectSelect(%s)", r.text(x.Args[0])), true
		}
		if r.isPkgCall(x, "runtime", "GOMAXPROCS") && len(x.Args) == 1 {
			r.usesSim = true
			r.keepAlive["runtime.GOMAXPROCS"] = true
			return fmt.Sprintf("vsim.GOMAXPROCS(%s)", r.text(x.Args[0])), true
		}
	case *ast.GoStmt:
		return r.goStmt(x), true
	case *ast.RangeStmt:
		if t := r.info.TypeOf(x.X); t != nil {
			if _, ok := t.Underlying().(*types.Chan); ok {
				return r.rangeChan(x), true
			}
		}
	case *ast.SelectStmt:
		return r.selectStmt(x), true
	case *ast.LabeledStmt:
		switch x.Stmt.(type) {
		case *ast.SelectStmt:
			r.fail(x, "labeled select is not supported by the rewriter")
		case *ast.RangeStmt:
			if t := r.info.TypeOf(x.Stmt.(*ast.RangeStmt).X); t != nil {
				if _, ok := t.Underlying().(*types.Chan); ok {
					r.fail(x, "labeled range over a channel is not supported by the rewriter")
				}
			}
		}
	}
	return "", false
}

func (r *rw) goStmt(g *ast.GoStmt) string {
	r.usesSim = true
	call := g.Call
	if fl, ok := call.Fun.(*ast.FuncLit); ok && len(call.Args) == 0 && fl.Type.Results == nil {
		return fmt.Sprintf("vsim.Go(%s, %s)", r.site(g), r.text(fl))
	}
	if id, ok := call.Fun.(*ast.Ident); ok {
		if _, ok := r.info.Uses[id].(*types.Builtin); ok {
			r.fail(g, "go with a builtin is not supported by the rewriter")
			return ""
		}
	}
	id := r.next()
	var b strings.Builder
	b.WriteString("{\n")
	fmt.Fprintf(&b, "%sf := %s\n", id, r.text(call.Fun))
	var args []string
	for i, a := range call.Args {
		fmt.Fprintf(&b, "%sa%d := %s\n", id, i, r.text(a))
		arg := fmt.Sprintf("%sa%d", id, i)
		if i == len(call.Args)-1 && call.Ellipsis.IsValid() {
			arg += "..."
		}
		args = append(args, arg)
	}
	fmt.Fprintf(&b, "vsim.Go(%s, func() { %sf(%s) })\n}", r.site(g), id, strings.Join(args, ", "))
	return b.String()
}

func (r *rw) rangeChan(x *ast.RangeStmt) string {
	r.usesSim = true
	if x.Value != nil {
		r.fail(x, "range over channel with two variables")
		return ""
	}
	id := r.next()
	site := r.site(x)
	var b strings.Builder
	b.WriteString("{\n")
	fmt.Fprintf(&b, "%sc := %s\n", id, r.text(x.X))
	key := "_"
	if x.Key != nil {
		key = r.text(x.Key)
	}
	recv := fmt.Sprintf("vsim.Recv2(%sc, %s)", id, site)
	if x.Tok == token.DEFINE {
		fmt.Fprintf(&b, "%s, %sok := %s\n", key, id, recv)
		if key != "_" {
			fmt.Fprintf(&b, "_ = %s\n", key)
		}
	} else {
		fmt.Fprintf(&b, "var %sok bool\n%s, %sok = %s\n", id, key, id, recv)
	}
	fmt.Fprintf(&b, "for ; %sok; %s, %sok = %s %s\n}", id, key, id, recv, r.text(x.Body))
	return b.String()
}

func (r *rw) selectStmt(s *ast.SelectStmt) string {
	r.usesSim = true
	id := r.next()
	site := r.site(s)
	var pre, poll, blocking, dispatch strings.Builder
	n := 0
	hasDefault := false
	for _, c := range s.Body.List {
		if c.(*ast.CommClause).Comm != nil {
			n++
		}
	}
	i := 0
	for _, c := range s.Body.List {
		cc := c.(*ast.CommClause)
		body := r.list(cc.Body)
		switch comm := cc.Comm.(type) {
		case nil:
			hasDefault = true
			fmt.Fprintf(&dispatch, "case %d:\n%s\n", n, body)
			continue
		case *ast.SendStmt:
			fmt.Fprintf(&pre, "%sc%d := %s\n", id, i, r.text(comm.Chan))
			fmt.Fprintf(&pre, "%sv%d := vsim.SendVal(%sc%d, %s)\n", id, i, id, i, r.text(comm.Value))
			fmt.Fprintf(&poll, "case %d:\nif vsim.TrySend(%sc%d, %sv%d) { %ss = %d }\n", i, id, i, id, i, id, i)
			fmt.Fprintf(&blocking, "case %sc%d <- %sv%d:\n%ss = %d\n", id, i, id, i, id, i)
			fmt.Fprintf(&dispatch, "case %d:\n%s\n", i, body)
		case *ast.ExprStmt:
			u, ok := isRecv(comm.X)
			if !ok {
				r.fail(comm, "select arm is not a receive")
				return ""
			}
			r.recvArm(&pre, &poll, &blocking, id, i, r.text(u.X))
			fmt.Fprintf(&dispatch, "case %d:\n%s\n", i, body)
		case *ast.AssignStmt:
			if len(comm.Rhs) != 1 || len(comm.Lhs) > 2 {
				r.fail(comm, "unexpected select arm")
				return ""
			}
			u, ok := isRecv(comm.Rhs[0])
			if !ok {
				r.fail(comm, "select arm is not a receive")
				return ""
			}
			r.recvArm(&pre, &poll, &blocking, id, i, r.text(u.X))
			var lhs []string
			allBlank := true
			for _, l := range comm.Lhs {
				t := r.text(l)
				lhs = append(lhs, t)
				if t != "_" {
					allBlank = false
				}
			}
			rhs := fmt.Sprintf("%sr%d", id, i)
			if len(lhs) == 2 {
				rhs += fmt.Sprintf(", %sk%d", id, i)
			}
			assign := ""
			if !(allBlank && comm.Tok == token.DEFINE) {
				assign = fmt.Sprintf("%s %s %s\n", strings.Join(lhs, ", "), comm.Tok, rhs)
			}
			fmt.Fprintf(&dispatch, "case %d:\n%s%s\n", i, assign, body)
		default:
			r.fail(cc, "unexpected select arm")
			return ""
		}
		i++
	}
	var b strings.Builder
	b.WriteString("{\n")
	b.WriteString(pre.String())
	fmt.Fprintf(&b, "%st := vsim.Pre(%s)\n_ = %st\n%ss := -1\n", id, site, id, id)
	if n > 0 {
		fmt.Fprintf(&b, "for _, %si := range vsim.SelectOrder(%s, %d) {\nswitch %si {\n%s}\nif %ss >= 0 { break }\n}\n", id, site, n, id, poll.String(), id)
	}
	fmt.Fprintf(&b, "if %ss < 0 {\n", id)
	if hasDefault {
		fmt.Fprintf(&b, "%ss = %d\n", id, n)
	} else {
		fmt.Fprintf(&b, "vsim.BeginOp(%st)\nselect {\n%scase <-vsim.KillC(%st):\nvsim.Die()\n}\nvsim.EndOp(%st)\n", id, blocking.String(), id, id)
	}
	fmt.Fprintf(&b, "} else {\nvsim.After(%s)\n}\n", site)
	fmt.Fprintf(&b, "switch %ss {\n%sdefault:\npanic(\"verifsim: unreachable select arm\")\n}\n}", id, dispatch.String())
	return b.String()
}

func (r *rw) recvArm(pre, poll, blocking *strings.Builder, id string, i int, ch string) {
	fmt.Fprintf(pre, "%sc%d := %s\n", id, i, ch)
	fmt.Fprintf(pre, "%sr%d, %sk%d := vsim.ZeroOf(%sc%d), false\n_, _ = %sr%d, %sk%d\n", id, i, id, i, id, i, id, i, id, i)
	fmt.Fprintf(poll, "case %d:\nvar %sg bool\n%sr%d, %sk%d, %sg = vsim.TryRecv(%sc%d)\nif %sg { %ss = %d }\n", i, id, id, i, id, i, id, id, i, id, id, i)
	fmt.Fprintf(blocking, "case %sr%d, %sk%d = <-%sc%d:\n%ss = %d\n", id, i, id, i, id, i, id, i)
}

// markYields finds statements (in statement lists) that directly evaluate ctx.Err() or ctx.Done()
// on a context.Context and do not already start with a schedule point of their own.
func (r *rw) markYields() {
	ast.Inspect(r.file, func(n ast.Node) bool {
		var list []ast.Stmt
		switch x := n.(type) {
		case *ast.BlockStmt:
			list = x.List
		case *ast.CaseClause:
			list = x.Body
		case *ast.CommClause:
			list = x.Body
		}
		for _, s := range list {
			switch s.(type) {
			case *ast.SelectStmt, *ast.SendStmt, *ast.GoStmt, *ast.LabeledStmt, *ast.BlockStmt, *ast.DeferStmt:
				continue
			}
			if r.directCtx(s) {
				r.needYield[s] = true
			}
		}
		return true
	})
}

func (r *rw) directCtx(s ast.Stmt) bool {
	found := false
	var exprs []ast.Node
	switch x := s.(type) {
	case *ast.IfStmt:
		for cur := x; cur != nil; {
			if cur.Init != nil {
				exprs = append(exprs, cur.Init)
			}
			exprs = append(exprs, cur.Cond)
			next, _ := cur.Else.(*ast.IfStmt)
			cur = next
		}
	case *ast.ForStmt:
		if x.Init != nil {
			exprs = append(exprs, x.Init)
		}
	case *ast.SwitchStmt:
		if x.Init != nil {
			exprs = append(exprs, x.Init)
		}
		if x.Tag != nil {
			exprs = append(exprs, x.Tag)
		}
	case *ast.RangeStmt:
		exprs = append(exprs, x.X)
	case *ast.TypeSwitchStmt:
	default:
		exprs = append(exprs, s)
	}
	for _, e := range exprs {
		ast.Inspect(e, func(n ast.Node) bool {
			switch c := n.(type) {
			case *ast.FuncLit:
				return false
			case *ast.CallExpr:
				if r.isCtxCall(c) {
					found = true
				}
			}
			return !found
		})
	}
	return found
}
