#!/usr/bin/env bash
# Determinism self-test: for each world, the same run indices are executed in several fresh
# processes at GOMAXPROCS 1, 4 and 16; the per-run (history hash, steps, tape length, verdict,
# signature) lines must be byte-identical. Exit 0 identical / 2 differences (tooling trouble).
set -u
ROOT="$(cd "$(dirname "${BASH_SOURCE[0]}")" && pwd)"
RUNS="${RUNS:-400}"
bin=$("$ROOT/verif.sh" build) || exit 2
worlds=("$@")
if [ ${#worlds[@]} -eq 0 ]; then
  mapfile -t worlds < <("$bin" -test.run='^TestHarness$' -mode=list | awk '{print $1}')
fi
tmp=$(mktemp -d "$ROOT/.cache/det.XXXXXX"); trap 'rm -rf "$tmp"' EXIT
bad=0
for w in "${worlds[@]}"; do
  prop=$("$bin" -test.run='^TestHarness$' -mode=list | awk -v w="$w" '$1==w{gsub(/[\[\]]/,"",$2); print $2}')
  n=0
  for gmp in 1 4 16; do
    for rep in 1 2 3 4 5; do
      n=$((n+1))
      ( VERIF_DUMP_HASHES="$tmp/$w.$n" GOMAXPROCS=$gmp "$bin" -test.run='^TestHarness$' -test.timeout=0 -mode=worker -world="$w" -prop="$prop" -seed="${VERIF_SEED:-1}" -worker=0 -workers=1 -seconds=600 -maxruns="$RUNS" -out="$tmp/$w.$n.json" -root="$tmp" >/dev/null 2>&1 ) &
    done
  done
  wait
  ref="$tmp/$w.1"
  for f in "$tmp/$w".[0-9]*; do
    case "$f" in *.json) continue;; esac
    if ! cmp -s "$ref" "$f"; then
      echo "NONDETERMINISM world=$w: $f differs from $ref"; diff "$ref" "$f" | head -5; bad=1
    fi
  done
  echo "world $w: $n processes x $RUNS runs identical=$([ $bad -eq 0 ] && echo yes || echo NO) ($(wc -l < "$ref") lines)"
done
[ $bad -eq 0 ] || exit 2
