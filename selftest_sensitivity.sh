#!/usr/bin/env bash
# Sensitivity self-test: every stored seeded change (seeded/<name>/patch.diff) is applied to a
# scratch worktree of /repo's HEAD and the quick check of the property it breaks is run against it.
# Exit 0 if every one is reported (exit 1 of its check), 1 otherwise. Usage: [names...]
# With FAST=1 the demonstration and the repository's own suite are not re-run (they were confirmed
# when the seed was kept, see confirm_suites.sh) and JOBS seeds are tried at a time.
set -u
ROOT="$(cd "$(dirname "${BASH_SOURCE[0]}")" && pwd)"
cd "$ROOT"
names=("$@"); [ ${#names[@]} -gt 0 ] || names=($(ls seeded))
# seeds that were judged, on reflection, not to break their property (meta.json "judged") are listed
# but not expected to be reported
keep=()
for n in "${names[@]}"; do
  if grep -q '"judged"' "seeded/$n/meta.json" 2>/dev/null; then echo "judged  $n  (not a violation, see meta.json)"
  elif grep -q '"out_of_reach"' "seeded/$n/meta.json" 2>/dev/null; then echo "out-of-reach  $n  (cannot show on this platform, see meta.json)"
  else keep+=("$n"); fi
done
names=("${keep[@]}")
if [ -n "${FAST:-}" ]; then
  export TRY_SEED_FAST=1
  one() {
    n=$1; out=$(./try_seed.sh "seeded/$n" 2>&1 | grep -v "^WARNING")
    if echo "$out" | grep -q "^check .*exit=1"; then echo "caught  $n  $(echo "$out" | grep -m1 'signature:' | sed 's/^ *//' | cut -c1-90)"
    else echo "MISSED  $n"; echo "$out" | tail -5; fi
  }
  export -f one
  log=$(mktemp /tmp/sens.XXXXXX)
  printf '%s\n' "${names[@]}" | xargs -P "${JOBS:-3}" -I{} bash -c 'one {}' | tee "$log"
  if grep -q "^MISSED" "$log"; then rm -f "$log"; exit 1; fi
  rm -f "$log"; exit 0
fi
miss=0
for n in "${names[@]}"; do
  out=$(./try_seed.sh "seeded/$n" 2>&1 | grep -v "^WARNING")
  if echo "$out" | grep -q "^check .*exit=1"; then
    echo "caught  $n  $(echo "$out" | grep -m1 'signature:' | sed 's/^ *//' | cut -c1-90)"
  else
    echo "MISSED  $n"; echo "$out" | tail -5; miss=1
  fi
done
exit $miss
