#!/usr/bin/env bash
# Specificity self-test: every stored behaviour-preserving refactoring (benign/<name>/patch.diff) is
# applied to a scratch worktree of /repo's HEAD and the quick checks of the properties it could
# touch are run against it. Exit 0 if all of them stay quiet (exit 0 of every check), 1 otherwise.
# Usage: [names...]   (SECS = seconds per check, default 10)
set -u
ROOT="$(cd "$(dirname "${BASH_SOURCE[0]}")" && pwd)"
cd "$ROOT"
names=("$@"); [ ${#names[@]} -gt 0 ] || names=($(ls benign))
bad=0
for n in "${names[@]}"; do
  props=$(python3 -c "import json;print(' '.join(json.load(open('benign/$n/meta.json'))['properties_checked']))")
  out=$(SECS="${SECS:-10}" ./try_benign.sh "benign/$n" $props 2>&1 | grep -v "^WARNING")
  if echo "$out" | grep -q "^ALARM\|does not apply\|does not build"; then echo "ALARM  $n"; echo "$out" | grep -v "^quiet"; bad=1; else echo "quiet  $n  ($props)"; fi
done
exit $bad
