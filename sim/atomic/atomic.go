// Package atomic is the simulator's drop-in for sync/atomic: a schedule point, then the real
// atomic operation (and, in post-yield runs, another schedule point).
package atomic

import (
	stdatomic "sync/atomic"

	"verifsim/sim"
)

func AddInt32(addr *int32, delta int32) int32 {
	sim.Pre("atomic.AddInt32")
	v := stdatomic.AddInt32(addr, delta)
	sim.After("atomic.AddInt32")
	return v
}
func AddInt64(addr *int64, delta int64) int64 {
	sim.Pre("atomic.AddInt64")
	v := stdatomic.AddInt64(addr, delta)
	sim.After("atomic.AddInt64")
	return v
}
func AddUint32(addr *uint32, delta uint32) uint32 {
	sim.Pre("atomic.AddUint32")
	v := stdatomic.AddUint32(addr, delta)
	sim.After("atomic.AddUint32")
	return v
}
func AddUint64(addr *uint64, delta uint64) uint64 {
	sim.Pre("atomic.AddUint64")
	v := stdatomic.AddUint64(addr, delta)
	sim.After("atomic.AddUint64")
	return v
}
func LoadInt32(addr *int32) int32 {
	sim.Pre("atomic.LoadInt32")
	v := stdatomic.LoadInt32(addr)
	sim.After("atomic.LoadInt32")
	return v
}
func LoadInt64(addr *int64) int64 {
	sim.Pre("atomic.LoadInt64")
	v := stdatomic.LoadInt64(addr)
	sim.After("atomic.LoadInt64")
	return v
}
func LoadUint32(addr *uint32) uint32 {
	sim.Pre("atomic.LoadUint32")
	v := stdatomic.LoadUint32(addr)
	sim.After("atomic.LoadUint32")
	return v
}
func LoadUint64(addr *uint64) uint64 {
	sim.Pre("atomic.LoadUint64")
	v := stdatomic.LoadUint64(addr)
	sim.After("atomic.LoadUint64")
	return v
}
func StoreInt32(addr *int32, v int32) {
	sim.Pre("atomic.StoreInt32")
	stdatomic.StoreInt32(addr, v)
	sim.After("atomic.StoreInt32")
}
func StoreInt64(addr *int64, v int64) {
	sim.Pre("atomic.StoreInt64")
	stdatomic.StoreInt64(addr, v)
	sim.After("atomic.StoreInt64")
}
func StoreUint32(addr *uint32, v uint32) {
	sim.Pre("atomic.StoreUint32")
	stdatomic.StoreUint32(addr, v)
	sim.After("atomic.StoreUint32")
}
func StoreUint64(addr *uint64, v uint64) {
	sim.Pre("atomic.StoreUint64")
	stdatomic.StoreUint64(addr, v)
	sim.After("atomic.StoreUint64")
}
func SwapInt32(addr *int32, v int32) int32 {
	sim.Pre("atomic.SwapInt32")
	o := stdatomic.SwapInt32(addr, v)
	sim.After("atomic.SwapInt32")
	return o
}
func SwapUint32(addr *uint32, v uint32) uint32 {
	sim.Pre("atomic.SwapUint32")
	o := stdatomic.SwapUint32(addr, v)
	sim.After("atomic.SwapUint32")
	return o
}
func CompareAndSwapInt32(addr *int32, old, new int32) bool {
	sim.Pre("atomic.CompareAndSwapInt32")
	ok := stdatomic.CompareAndSwapInt32(addr, old, new)
	sim.After("atomic.CompareAndSwapInt32")
	return ok
}
func CompareAndSwapInt64(addr *int64, old, new int64) bool {
	sim.Pre("atomic.CompareAndSwapInt64")
	ok := stdatomic.CompareAndSwapInt64(addr, old, new)
	sim.After("atomic.CompareAndSwapInt64")
	return ok
}
func CompareAndSwapUint32(addr *uint32, old, new uint32) bool {
	sim.Pre("atomic.CompareAndSwapUint32")
	ok := stdatomic.CompareAndSwapUint32(addr, old, new)
	sim.After("atomic.CompareAndSwapUint32")
	return ok
}
func CompareAndSwapUint64(addr *uint64, old, new uint64) bool {
	sim.Pre("atomic.CompareAndSwapUint64")
	ok := stdatomic.CompareAndSwapUint64(addr, old, new)
	sim.After("atomic.CompareAndSwapUint64")
	return ok
}

// Pointer mirrors atomic.Pointer[T].
type Pointer[T any] struct {
	p stdatomic.Pointer[T]
}

func (x *Pointer[T]) Load() *T {
	sim.Pre("atomic.Pointer.Load")
	v := x.p.Load()
	sim.After("atomic.Pointer.Load")
	return v
}
func (x *Pointer[T]) Store(v *T) {
	sim.Pre("atomic.Pointer.Store")
	x.p.Store(v)
	sim.After("atomic.Pointer.Store")
}
func (x *Pointer[T]) Swap(v *T) *T {
	sim.Pre("atomic.Pointer.Swap")
	o := x.p.Swap(v)
	sim.After("atomic.Pointer.Swap")
	return o
}
func (x *Pointer[T]) CompareAndSwap(old, new *T) bool {
	sim.Pre("atomic.Pointer.CompareAndSwap")
	ok := x.p.CompareAndSwap(old, new)
	sim.After("atomic.Pointer.CompareAndSwap")
	return ok
}

// Value, Bool, Int32.. typed wrappers (yield + real op).
type Value struct{ v stdatomic.Value }

func (x *Value) Load() any { sim.Pre("atomic.Value.Load"); return x.v.Load() }
func (x *Value) Store(v any) {
	sim.Pre("atomic.Value.Store")
	x.v.Store(v)
	sim.After("atomic.Value.Store")
}

type Bool struct{ v stdatomic.Bool }

func (x *Bool) Load() bool { sim.Pre("atomic.Bool.Load"); return x.v.Load() }
func (x *Bool) Store(v bool) {
	sim.Pre("atomic.Bool.Store")
	x.v.Store(v)
	sim.After("atomic.Bool.Store")
}
func (x *Bool) Swap(v bool) bool {
	sim.Pre("atomic.Bool.Swap")
	o := x.v.Swap(v)
	sim.After("atomic.Bool.Swap")
	return o
}
func (x *Bool) CompareAndSwap(old, new bool) bool {
	sim.Pre("atomic.Bool.CompareAndSwap")
	ok := x.v.CompareAndSwap(old, new)
	sim.After("atomic.Bool.CompareAndSwap")
	return ok
}

type Int32 struct{ v stdatomic.Int32 }

func (x *Int32) Load() int32 { sim.Pre("atomic.Int32.Load"); return x.v.Load() }
func (x *Int32) Store(v int32) {
	sim.Pre("atomic.Int32.Store")
	x.v.Store(v)
	sim.After("atomic.Int32.Store")
}
func (x *Int32) Add(d int32) int32 {
	sim.Pre("atomic.Int32.Add")
	o := x.v.Add(d)
	sim.After("atomic.Int32.Add")
	return o
}
func (x *Int32) CompareAndSwap(old, new int32) bool {
	sim.Pre("atomic.Int32.CompareAndSwap")
	ok := x.v.CompareAndSwap(old, new)
	sim.After("atomic.Int32.CompareAndSwap")
	return ok
}

type Int64 struct{ v stdatomic.Int64 }

func (x *Int64) Load() int64 { sim.Pre("atomic.Int64.Load"); return x.v.Load() }
func (x *Int64) Store(v int64) {
	sim.Pre("atomic.Int64.Store")
	x.v.Store(v)
	sim.After("atomic.Int64.Store")
}
func (x *Int64) Add(d int64) int64 {
	sim.Pre("atomic.Int64.Add")
	o := x.v.Add(d)
	sim.After("atomic.Int64.Add")
	return o
}
func (x *Int64) CompareAndSwap(old, new int64) bool {
	sim.Pre("atomic.Int64.CompareAndSwap")
	ok := x.v.CompareAndSwap(old, new)
	sim.After("atomic.Int64.CompareAndSwap")
	return ok
}

type Uint32 struct{ v stdatomic.Uint32 }

func (x *Uint32) Load() uint32 { sim.Pre("atomic.Uint32.Load"); return x.v.Load() }
func (x *Uint32) Store(v uint32) {
	sim.Pre("atomic.Uint32.Store")
	x.v.Store(v)
	sim.After("atomic.Uint32.Store")
}
func (x *Uint32) Add(d uint32) uint32 {
	sim.Pre("atomic.Uint32.Add")
	o := x.v.Add(d)
	sim.After("atomic.Uint32.Add")
	return o
}
func (x *Uint32) CompareAndSwap(old, new uint32) bool {
	sim.Pre("atomic.Uint32.CompareAndSwap")
	ok := x.v.CompareAndSwap(old, new)
	sim.After("atomic.Uint32.CompareAndSwap")
	return ok
}
