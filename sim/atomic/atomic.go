// Package atomic is the simulator's drop-in for sync/atomic: a schedule point, then the real
// atomic operation (and, in post-yield runs, another schedule point).
package atomic

import (
	stdatomic "sync/atomic"
	"unsafe"

	"verifsim/sim"
)

func AddInt32(addr *int32, delta int32) int32 {
	sim.Pre("atomic.AddInt32")
	v := stdatomic.AddInt32(addr, delta)
	sim.After("atomic.AddInt32")
	return v
}
func AddInt64(addr *int64, delta int64) int64 {
	sim.Pre("atomic.AddInt64")
	v := stdatomic.AddInt64(addr, delta)
	sim.After("atomic.AddInt64")
	return v
}
func AddUint32(addr *uint32, delta uint32) uint32 {
	sim.Pre("atomic.AddUint32")
	v := stdatomic.AddUint32(addr, delta)
	sim.After("atomic.AddUint32")
	return v
}
func AddUint64(addr *uint64, delta uint64) uint64 {
	sim.Pre("atomic.AddUint64")
	v := stdatomic.AddUint64(addr, delta)
	sim.After("atomic.AddUint64")
	return v
}
func LoadInt32(addr *int32) int32 {
	sim.Pre("atomic.LoadInt32")
	v := stdatomic.LoadInt32(addr)
	sim.After("atomic.LoadInt32")
	return v
}
func LoadInt64(addr *int64) int64 {
	sim.Pre("atomic.LoadInt64")
	v := stdatomic.LoadInt64(addr)
	sim.After("atomic.LoadInt64")
	return v
}
func LoadUint32(addr *uint32) uint32 {
	sim.Pre("atomic.LoadUint32")
	v := stdatomic.LoadUint32(addr)
	sim.After("atomic.LoadUint32")
	return v
}
func LoadUint64(addr *uint64) uint64 {
	sim.Pre("atomic.LoadUint64")
	v := stdatomic.LoadUint64(addr)
	sim.After("atomic.LoadUint64")
	return v
}
func StoreInt32(addr *int32, v int32) {
	sim.Pre("atomic.StoreInt32")
	stdatomic.StoreInt32(addr, v)
	sim.After("atomic.StoreInt32")
}
func StoreInt64(addr *int64, v int64) {
	sim.Pre("atomic.StoreInt64")
	stdatomic.StoreInt64(addr, v)
	sim.After("atomic.StoreInt64")
}
func StoreUint32(addr *uint32, v uint32) {
	sim.Pre("atomic.StoreUint32")
	stdatomic.StoreUint32(addr, v)
	sim.After("atomic.StoreUint32")
}
func StoreUint64(addr *uint64, v uint64) {
	sim.Pre("atomic.StoreUint64")
	stdatomic.StoreUint64(addr, v)
	sim.After("atomic.StoreUint64")
}
func SwapInt32(addr *int32, v int32) int32 {
	sim.Pre("atomic.SwapInt32")
	o := stdatomic.SwapInt32(addr, v)
	sim.After("atomic.SwapInt32")
	return o
}
func SwapUint32(addr *uint32, v uint32) uint32 {
	sim.Pre("atomic.SwapUint32")
	o := stdatomic.SwapUint32(addr, v)
	sim.After("atomic.SwapUint32")
	return o
}
func CompareAndSwapInt32(addr *int32, old, new int32) bool {
	sim.Pre("atomic.CompareAndSwapInt32")
	ok := stdatomic.CompareAndSwapInt32(addr, old, new)
	sim.After("atomic.CompareAndSwapInt32")
	return ok
}
func CompareAndSwapInt64(addr *int64, old, new int64) bool {
	sim.Pre("atomic.CompareAndSwapInt64")
	ok := stdatomic.CompareAndSwapInt64(addr, old, new)
	sim.After("atomic.CompareAndSwapInt64")
	return ok
}
func CompareAndSwapUint32(addr *uint32, old, new uint32) bool {
	sim.Pre("atomic.CompareAndSwapUint32")
	ok := stdatomic.CompareAndSwapUint32(addr, old, new)
	sim.After("atomic.CompareAndSwapUint32")
	return ok
}
func CompareAndSwapUint64(addr *uint64, old, new uint64) bool {
	sim.Pre("atomic.CompareAndSwapUint64")
	ok := stdatomic.CompareAndSwapUint64(addr, old, new)
	sim.After("atomic.CompareAndSwapUint64")
	return ok
}

// Pointer mirrors atomic.Pointer[T].
type Pointer[T any] struct {
	p stdatomic.Pointer[T]
}

func (x *Pointer[T]) Load() *T {
	sim.Pre("atomic.Pointer.Load")
	v := x.p.Load()
	sim.After("atomic.Pointer.Load")
	return v
}
func (x *Pointer[T]) Store(v *T) {
	sim.Pre("atomic.Pointer.Store")
	x.p.Store(v)
	sim.After("atomic.Pointer.Store")
}
func (x *Pointer[T]) Swap(v *T) *T {
	sim.Pre("atomic.Pointer.Swap")
	o := x.p.Swap(v)
	sim.After("atomic.Pointer.Swap")
	return o
}
func (x *Pointer[T]) CompareAndSwap(old, new *T) bool {
	sim.Pre("atomic.Pointer.CompareAndSwap")
	ok := x.p.CompareAndSwap(old, new)
	sim.After("atomic.Pointer.CompareAndSwap")
	return ok
}

// Value, Bool, Int32.. typed wrappers (yield + real op).
type Value struct{ v stdatomic.Value }

func (x *Value) Load() any { sim.Pre("atomic.Value.Load"); return x.v.Load() }
func (x *Value) Store(v any) {
	sim.Pre("atomic.Value.Store")
	x.v.Store(v)
	sim.After("atomic.Value.Store")
}

type Bool struct{ v stdatomic.Bool }

func (x *Bool) Load() bool { sim.Pre("atomic.Bool.Load"); return x.v.Load() }
func (x *Bool) Store(v bool) {
	sim.Pre("atomic.Bool.Store")
	x.v.Store(v)
	sim.After("atomic.Bool.Store")
}
func (x *Bool) Swap(v bool) bool {
	sim.Pre("atomic.Bool.Swap")
	o := x.v.Swap(v)
	sim.After("atomic.Bool.Swap")
	return o
}
func (x *Bool) CompareAndSwap(old, new bool) bool {
	sim.Pre("atomic.Bool.CompareAndSwap")
	ok := x.v.CompareAndSwap(old, new)
	sim.After("atomic.Bool.CompareAndSwap")
	return ok
}

type Int32 struct{ v stdatomic.Int32 }

func (x *Int32) Load() int32 { sim.Pre("atomic.Int32.Load"); return x.v.Load() }
func (x *Int32) Store(v int32) {
	sim.Pre("atomic.Int32.Store")
	x.v.Store(v)
	sim.After("atomic.Int32.Store")
}
func (x *Int32) Add(d int32) int32 {
	sim.Pre("atomic.Int32.Add")
	o := x.v.Add(d)
	sim.After("atomic.Int32.Add")
	return o
}
func (x *Int32) CompareAndSwap(old, new int32) bool {
	sim.Pre("atomic.Int32.CompareAndSwap")
	ok := x.v.CompareAndSwap(old, new)
	sim.After("atomic.Int32.CompareAndSwap")
	return ok
}

type Int64 struct{ v stdatomic.Int64 }

func (x *Int64) Load() int64 { sim.Pre("atomic.Int64.Load"); return x.v.Load() }
func (x *Int64) Store(v int64) {
	sim.Pre("atomic.Int64.Store")
	x.v.Store(v)
	sim.After("atomic.Int64.Store")
}
func (x *Int64) Add(d int64) int64 {
	sim.Pre("atomic.Int64.Add")
	o := x.v.Add(d)
	sim.After("atomic.Int64.Add")
	return o
}
func (x *Int64) CompareAndSwap(old, new int64) bool {
	sim.Pre("atomic.Int64.CompareAndSwap")
	ok := x.v.CompareAndSwap(old, new)
	sim.After("atomic.Int64.CompareAndSwap")
	return ok
}

type Uint32 struct{ v stdatomic.Uint32 }

func (x *Uint32) Load() uint32 { sim.Pre("atomic.Uint32.Load"); return x.v.Load() }
func (x *Uint32) Store(v uint32) {
	sim.Pre("atomic.Uint32.Store")
	x.v.Store(v)
	sim.After("atomic.Uint32.Store")
}
func (x *Uint32) Add(d uint32) uint32 {
	sim.Pre("atomic.Uint32.Add")
	o := x.v.Add(d)
	sim.After("atomic.Uint32.Add")
	return o
}
func (x *Uint32) CompareAndSwap(old, new uint32) bool {
	sim.Pre("atomic.Uint32.CompareAndSwap")
	ok := x.v.CompareAndSwap(old, new)
	sim.After("atomic.Uint32.CompareAndSwap")
	return ok
}

// ---- the rest of sync/atomic (generated; same shape: schedule point, real operation) ----

type Uint64 struct{ v stdatomic.Uint64 }
type Uintptr struct{ v stdatomic.Uintptr }

func AndInt32(addr *int32, mask int32) int32 {
	sim.Pre("atomic.AndInt32")
	v := stdatomic.AndInt32(addr, mask)
	sim.After("atomic.AndInt32")
	return v
}
func OrInt32(addr *int32, mask int32) int32 {
	sim.Pre("atomic.OrInt32")
	v := stdatomic.OrInt32(addr, mask)
	sim.After("atomic.OrInt32")
	return v
}
func AndInt64(addr *int64, mask int64) int64 {
	sim.Pre("atomic.AndInt64")
	v := stdatomic.AndInt64(addr, mask)
	sim.After("atomic.AndInt64")
	return v
}
func OrInt64(addr *int64, mask int64) int64 {
	sim.Pre("atomic.OrInt64")
	v := stdatomic.OrInt64(addr, mask)
	sim.After("atomic.OrInt64")
	return v
}
func SwapInt64(addr *int64, new int64) int64 {
	sim.Pre("atomic.SwapInt64")
	v := stdatomic.SwapInt64(addr, new)
	sim.After("atomic.SwapInt64")
	return v
}
func AndUint32(addr *uint32, mask uint32) uint32 {
	sim.Pre("atomic.AndUint32")
	v := stdatomic.AndUint32(addr, mask)
	sim.After("atomic.AndUint32")
	return v
}
func OrUint32(addr *uint32, mask uint32) uint32 {
	sim.Pre("atomic.OrUint32")
	v := stdatomic.OrUint32(addr, mask)
	sim.After("atomic.OrUint32")
	return v
}
func AndUint64(addr *uint64, mask uint64) uint64 {
	sim.Pre("atomic.AndUint64")
	v := stdatomic.AndUint64(addr, mask)
	sim.After("atomic.AndUint64")
	return v
}
func OrUint64(addr *uint64, mask uint64) uint64 {
	sim.Pre("atomic.OrUint64")
	v := stdatomic.OrUint64(addr, mask)
	sim.After("atomic.OrUint64")
	return v
}
func SwapUint64(addr *uint64, new uint64) uint64 {
	sim.Pre("atomic.SwapUint64")
	v := stdatomic.SwapUint64(addr, new)
	sim.After("atomic.SwapUint64")
	return v
}
func AddUintptr(addr *uintptr, delta uintptr) uintptr {
	sim.Pre("atomic.AddUintptr")
	v := stdatomic.AddUintptr(addr, delta)
	sim.After("atomic.AddUintptr")
	return v
}
func AndUintptr(addr *uintptr, mask uintptr) uintptr {
	sim.Pre("atomic.AndUintptr")
	v := stdatomic.AndUintptr(addr, mask)
	sim.After("atomic.AndUintptr")
	return v
}
func OrUintptr(addr *uintptr, mask uintptr) uintptr {
	sim.Pre("atomic.OrUintptr")
	v := stdatomic.OrUintptr(addr, mask)
	sim.After("atomic.OrUintptr")
	return v
}
func LoadUintptr(addr *uintptr) uintptr {
	sim.Pre("atomic.LoadUintptr")
	v := stdatomic.LoadUintptr(addr)
	sim.After("atomic.LoadUintptr")
	return v
}
func SwapUintptr(addr *uintptr, new uintptr) uintptr {
	sim.Pre("atomic.SwapUintptr")
	v := stdatomic.SwapUintptr(addr, new)
	sim.After("atomic.SwapUintptr")
	return v
}
func CompareAndSwapUintptr(addr *uintptr, old, new uintptr) bool {
	sim.Pre("atomic.CompareAndSwapUintptr")
	v := stdatomic.CompareAndSwapUintptr(addr, old, new)
	sim.After("atomic.CompareAndSwapUintptr")
	return v
}
func StoreUintptr(addr *uintptr, val uintptr) {
	sim.Pre("atomic.StoreUintptr")
	stdatomic.StoreUintptr(addr, val)
	sim.After("atomic.StoreUintptr")
}
func LoadPointer(addr *unsafe.Pointer) unsafe.Pointer {
	sim.Pre("atomic.LoadPointer")
	v := stdatomic.LoadPointer(addr)
	sim.After("atomic.LoadPointer")
	return v
}
func StorePointer(addr *unsafe.Pointer, val unsafe.Pointer) {
	sim.Pre("atomic.StorePointer")
	stdatomic.StorePointer(addr, val)
	sim.After("atomic.StorePointer")
}
func SwapPointer(addr *unsafe.Pointer, new unsafe.Pointer) unsafe.Pointer {
	sim.Pre("atomic.SwapPointer")
	v := stdatomic.SwapPointer(addr, new)
	sim.After("atomic.SwapPointer")
	return v
}
func CompareAndSwapPointer(addr *unsafe.Pointer, old, new unsafe.Pointer) bool {
	sim.Pre("atomic.CompareAndSwapPointer")
	v := stdatomic.CompareAndSwapPointer(addr, old, new)
	sim.After("atomic.CompareAndSwapPointer")
	return v
}
func (x *Int32) Swap(new int32) int32 {
	sim.Pre("atomic.Int32.Swap")
	v := x.v.Swap(new)
	sim.After("atomic.Int32.Swap")
	return v
}
func (x *Int32) And(mask int32) int32 {
	sim.Pre("atomic.Int32.And")
	v := x.v.And(mask)
	sim.After("atomic.Int32.And")
	return v
}
func (x *Int32) Or(mask int32) int32 {
	sim.Pre("atomic.Int32.Or")
	v := x.v.Or(mask)
	sim.After("atomic.Int32.Or")
	return v
}
func (x *Int64) Swap(new int64) int64 {
	sim.Pre("atomic.Int64.Swap")
	v := x.v.Swap(new)
	sim.After("atomic.Int64.Swap")
	return v
}
func (x *Int64) And(mask int64) int64 {
	sim.Pre("atomic.Int64.And")
	v := x.v.And(mask)
	sim.After("atomic.Int64.And")
	return v
}
func (x *Int64) Or(mask int64) int64 {
	sim.Pre("atomic.Int64.Or")
	v := x.v.Or(mask)
	sim.After("atomic.Int64.Or")
	return v
}
func (x *Uint32) Swap(new uint32) uint32 {
	sim.Pre("atomic.Uint32.Swap")
	v := x.v.Swap(new)
	sim.After("atomic.Uint32.Swap")
	return v
}
func (x *Uint32) And(mask uint32) uint32 {
	sim.Pre("atomic.Uint32.And")
	v := x.v.And(mask)
	sim.After("atomic.Uint32.And")
	return v
}
func (x *Uint32) Or(mask uint32) uint32 {
	sim.Pre("atomic.Uint32.Or")
	v := x.v.Or(mask)
	sim.After("atomic.Uint32.Or")
	return v
}
func (x *Uint64) Load() uint64 {
	sim.Pre("atomic.Uint64.Load")
	v := x.v.Load()
	sim.After("atomic.Uint64.Load")
	return v
}
func (x *Uint64) Store(val uint64) {
	sim.Pre("atomic.Uint64.Store")
	x.v.Store(val)
	sim.After("atomic.Uint64.Store")
}
func (x *Uint64) Add(delta uint64) uint64 {
	sim.Pre("atomic.Uint64.Add")
	v := x.v.Add(delta)
	sim.After("atomic.Uint64.Add")
	return v
}
func (x *Uint64) Swap(new uint64) uint64 {
	sim.Pre("atomic.Uint64.Swap")
	v := x.v.Swap(new)
	sim.After("atomic.Uint64.Swap")
	return v
}
func (x *Uint64) CompareAndSwap(old, new uint64) bool {
	sim.Pre("atomic.Uint64.CompareAndSwap")
	v := x.v.CompareAndSwap(old, new)
	sim.After("atomic.Uint64.CompareAndSwap")
	return v
}
func (x *Uint64) And(mask uint64) uint64 {
	sim.Pre("atomic.Uint64.And")
	v := x.v.And(mask)
	sim.After("atomic.Uint64.And")
	return v
}
func (x *Uint64) Or(mask uint64) uint64 {
	sim.Pre("atomic.Uint64.Or")
	v := x.v.Or(mask)
	sim.After("atomic.Uint64.Or")
	return v
}
func (x *Uintptr) Load() uintptr {
	sim.Pre("atomic.Uintptr.Load")
	v := x.v.Load()
	sim.After("atomic.Uintptr.Load")
	return v
}
func (x *Uintptr) Store(val uintptr) {
	sim.Pre("atomic.Uintptr.Store")
	x.v.Store(val)
	sim.After("atomic.Uintptr.Store")
}
func (x *Uintptr) Add(delta uintptr) uintptr {
	sim.Pre("atomic.Uintptr.Add")
	v := x.v.Add(delta)
	sim.After("atomic.Uintptr.Add")
	return v
}
func (x *Uintptr) Swap(new uintptr) uintptr {
	sim.Pre("atomic.Uintptr.Swap")
	v := x.v.Swap(new)
	sim.After("atomic.Uintptr.Swap")
	return v
}
func (x *Uintptr) CompareAndSwap(old, new uintptr) bool {
	sim.Pre("atomic.Uintptr.CompareAndSwap")
	v := x.v.CompareAndSwap(old, new)
	sim.After("atomic.Uintptr.CompareAndSwap")
	return v
}
func (x *Uintptr) And(mask uintptr) uintptr {
	sim.Pre("atomic.Uintptr.And")
	v := x.v.And(mask)
	sim.After("atomic.Uintptr.And")
	return v
}
func (x *Uintptr) Or(mask uintptr) uintptr {
	sim.Pre("atomic.Uintptr.Or")
	v := x.v.Or(mask)
	sim.After("atomic.Uintptr.Or")
	return v
}
func (x *Value) Swap(new any) any {
	sim.Pre("atomic.Value.Swap")
	v := x.v.Swap(new)
	sim.After("atomic.Value.Swap")
	return v
}
func (x *Value) CompareAndSwap(old, new any) bool {
	sim.Pre("atomic.Value.CompareAndSwap")
	v := x.v.CompareAndSwap(old, new)
	sim.After("atomic.Value.CompareAndSwap")
	return v
}
