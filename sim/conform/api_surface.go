// Code generated from `go doc -all` of the standard packages; DO NOT EDIT.
//
// Compile-time check that every exported function, type, constant and variable of the packages the
// rewriter substitutes exists in the stand-in too: a change to the library that starts using another
// part of those packages must still build in the simulator (otherwise the check could only answer
// "tooling trouble").
package conform

import (
	vatomic "verifsim/atomic"
	vsync "verifsim/sync"
	vcontext "verifsim/context"
	vtime "verifsim/time"
	vrand "verifsim/rand"
)

var _ = vatomic.AddInt32
var _ = vatomic.AddInt64
var _ = vatomic.AddUint32
var _ = vatomic.AddUint64
var _ = vatomic.AddUintptr
var _ = vatomic.AndInt32
var _ = vatomic.AndInt64
var _ = vatomic.AndUint32
var _ = vatomic.AndUint64
var _ = vatomic.AndUintptr
var _ = vatomic.CompareAndSwapInt32
var _ = vatomic.CompareAndSwapInt64
var _ = vatomic.CompareAndSwapPointer
var _ = vatomic.CompareAndSwapUint32
var _ = vatomic.CompareAndSwapUint64
var _ = vatomic.CompareAndSwapUintptr
var _ = vatomic.LoadInt32
var _ = vatomic.LoadInt64
var _ = vatomic.LoadPointer
var _ = vatomic.LoadUint32
var _ = vatomic.LoadUint64
var _ = vatomic.LoadUintptr
var _ = vatomic.OrInt32
var _ = vatomic.OrInt64
var _ = vatomic.OrUint32
var _ = vatomic.OrUint64
var _ = vatomic.OrUintptr
var _ = vatomic.StoreInt32
var _ = vatomic.StoreInt64
var _ = vatomic.StorePointer
var _ = vatomic.StoreUint32
var _ = vatomic.StoreUint64
var _ = vatomic.StoreUintptr
var _ = vatomic.SwapInt32
var _ = vatomic.SwapInt64
var _ = vatomic.SwapPointer
var _ = vatomic.SwapUint32
var _ = vatomic.SwapUint64
var _ = vatomic.SwapUintptr
var _ *vatomic.Bool
var _ *vatomic.Int32
var _ *vatomic.Int64
var _ *vatomic.Pointer[int]
var _ *vatomic.Uint32
var _ *vatomic.Uint64
var _ *vatomic.Uintptr
var _ *vatomic.Value
var _ = vsync.NewCond
var _ = vsync.OnceFunc
var _ = vsync.OnceValue[int]
var _ = vsync.OnceValues[int, int]
var _ *vsync.Cond
var _ *vsync.Locker
var _ *vsync.Map
var _ *vsync.Mutex
var _ *vsync.Once
var _ *vsync.Pool
var _ *vsync.RWMutex
var _ *vsync.WaitGroup
var _ = vcontext.AfterFunc
var _ = vcontext.Background
var _ = vcontext.Cause
var _ = vcontext.TODO
var _ = vcontext.WithCancel
var _ = vcontext.WithCancelCause
var _ = vcontext.WithDeadline
var _ = vcontext.WithDeadlineCause
var _ = vcontext.WithTimeout
var _ = vcontext.WithTimeoutCause
var _ = vcontext.WithValue
var _ = vcontext.WithoutCancel
var _ *vcontext.CancelCauseFunc
var _ *vcontext.CancelFunc
var _ *vcontext.Context
var _ = vtime.After
var _ = vtime.AfterFunc
var _ = vtime.Date
var _ = vtime.FixedZone
var _ = vtime.LoadLocation
var _ = vtime.LoadLocationFromTZData
var _ = vtime.NewTicker
var _ = vtime.NewTimer
var _ = vtime.Now
var _ = vtime.Parse
var _ = vtime.ParseDuration
var _ = vtime.ParseInLocation
var _ = vtime.Since
var _ = vtime.Sleep
var _ = vtime.Tick
var _ = vtime.Unix
var _ = vtime.UnixMicro
var _ = vtime.UnixMilli
var _ = vtime.Until
var _ *vtime.Duration
var _ *vtime.Location
var _ *vtime.Month
var _ *vtime.ParseError
var _ *vtime.Ticker
var _ *vtime.Time
var _ *vtime.Timer
var _ *vtime.Weekday
var _ = vtime.ANSIC
var _ = vtime.DateOnly
var _ = vtime.DateTime
var _ = vtime.Hour
var _ = vtime.January
var _ = vtime.Kitchen
var _ = vtime.Layout
var _ = vtime.Microsecond
var _ = vtime.Millisecond
var _ = vtime.Minute
var _ = vtime.Nanosecond
var _ = vtime.RFC1123
var _ = vtime.RFC1123Z
var _ = vtime.RFC3339
var _ = vtime.RFC3339Nano
var _ = vtime.RFC822
var _ = vtime.RFC822Z
var _ = vtime.RFC850
var _ = vtime.RubyDate
var _ = vtime.Second
var _ = vtime.Stamp
var _ = vtime.StampMicro
var _ = vtime.StampMilli
var _ = vtime.StampNano
var _ = vtime.Sunday
var _ = vtime.TimeOnly
var _ = vtime.UnixDate
var _ = vrand.ExpFloat64
var _ = vrand.Float32
var _ = vrand.Float64
var _ = vrand.Int
var _ = vrand.Int31
var _ = vrand.Int31n
var _ = vrand.Int63
var _ = vrand.Int63n
var _ = vrand.Intn
var _ = vrand.New
var _ = vrand.NewSource
var _ = vrand.NewZipf
var _ = vrand.NormFloat64
var _ = vrand.Perm
var _ = vrand.Read
var _ = vrand.Seed
var _ = vrand.Shuffle
var _ = vrand.Uint32
var _ = vrand.Uint64
var _ *vrand.Rand
var _ *vrand.Source
var _ *vrand.Source64
var _ *vrand.Zipf
