// Package conform is the differential conformance test of the simulator's sync stand-ins against
// the real sync package (DESIGN.md §2.12): random sequences of operations whose outcome does not
// depend on scheduling (Try-locks, unlocks of held locks, WaitGroup counting, Once, OnceValue) are
// applied to both and must agree, and the blocking behaviour (a waiter is released exactly when the
// real primitive would release it) is checked with small scripted scenarios under the scheduler.
package conform

import (
	"fmt"
	"reflect"
	"sort"
	stdsync "sync"
	"testing"
	"testing/synctest"

	"verifsim/sim"
	vsync "verifsim/sync"
)

func inSim(t *testing.T, seed uint64, f func()) *sim.Outcome {
	var out *sim.Outcome
	synctest.Test(t, func(t *testing.T) {
		out = sim.Run(sim.NewGenTape(seed), sim.Config{Strategy: int(seed % 3), PostYield: seed%2 == 0}, f, nil)
	})
	return out
}

func TestTryLockSequencesAgree(t *testing.T) {
	for seed := uint64(1); seed <= 300; seed++ {
		var log1, log2 []string
		inSim(t, seed, func() {
			tape := sim.NewGenTape(seed * 7919)
			var m vsync.RWMutex
			var r stdsync.RWMutex
			w, rd := false, 0
			for i := 0; i < 60; i++ {
				switch tape.Choose(4, "op") {
				case 0:
					a, b := m.TryLock(), r.TryLock()
					log1, log2 = append(log1, fmt.Sprint("TryLock", a)), append(log2, fmt.Sprint("TryLock", b))
					if a {
						w = true
					}
				case 1:
					a, b := m.TryRLock(), r.TryRLock()
					log1, log2 = append(log1, fmt.Sprint("TryRLock", a)), append(log2, fmt.Sprint("TryRLock", b))
					if a {
						rd++
					}
				case 2:
					if w {
						m.Unlock()
						r.Unlock()
						w = false
					}
				case 3:
					if rd > 0 {
						m.RUnlock()
						r.RUnlock()
						rd--
					}
				}
			}
		})
		if fmt.Sprint(log1) != fmt.Sprint(log2) {
			t.Fatalf("seed %d: stand-in %v\nreal     %v", seed, log1, log2)
		}
	}
}

func TestMutexTryLockAgree(t *testing.T) {
	for seed := uint64(1); seed <= 200; seed++ {
		var log1, log2 []string
		inSim(t, seed, func() {
			tape := sim.NewGenTape(seed * 104729)
			var m vsync.Mutex
			var r stdsync.Mutex
			held := false
			for i := 0; i < 40; i++ {
				if tape.Choose(2, "op") == 0 {
					a, b := m.TryLock(), r.TryLock()
					log1, log2 = append(log1, fmt.Sprint(a)), append(log2, fmt.Sprint(b))
					if a {
						held = true
					}
				} else if held {
					m.Unlock()
					r.Unlock()
					held = false
				}
			}
		})
		if fmt.Sprint(log1) != fmt.Sprint(log2) {
			t.Fatalf("seed %d: %v vs %v", seed, log1, log2)
		}
	}
}

// Blocking behaviour under every schedule the seeds produce: mutual exclusion, writer exclusion,
// WaitGroup barrier, Cond wake-ups (no lost wake-up, Signal wakes at most one), Once runs once and
// later callers wait for it.
func TestBlockingSemantics(t *testing.T) {
	for seed := uint64(1); seed <= 400; seed++ {
		var fail string
		out := inSim(t, seed, func() {
			var mu vsync.Mutex
			var rw vsync.RWMutex
			var wg vsync.WaitGroup
			var once vsync.Once
			cond := vsync.NewCond(&mu)
			inCS, writers, readers, onceRuns, ready, woken, waiting := 0, 0, 0, 0, 0, 0, 0
			done := 0
			const n = 4
			wg.Add(n)
			for i := 0; i < n; i++ {
				i := i
				sim.Go(fmt.Sprint("w", i), func() {
					defer wg.Done()
					mu.Lock()
					inCS++
					if inCS != 1 {
						fail = "two tasks inside a Mutex"
					}
					sim.Yield("cs")
					inCS--
					mu.Unlock()
					if i%2 == 0 {
						rw.Lock()
						writers++
						if writers != 1 || readers != 0 {
							fail = "writer not exclusive"
						}
						sim.Yield("w")
						writers--
						rw.Unlock()
					} else {
						rw.RLock()
						readers++
						if writers != 0 {
							fail = "reader alongside a writer"
						}
						sim.Yield("r")
						readers--
						rw.RUnlock()
					}
					once.Do(func() { sim.Yield("once"); onceRuns++ })
					if onceRuns != 1 {
						fail = "Once.Do returned before the function had run"
					}
					// cond: wait until ready
					mu.Lock()
					for ready == 0 {
						waiting++
						cond.Wait()
						waiting--
					}
					ready--
					woken++
					mu.Unlock()
					done++
				})
			}
			// hand out n permits, one Signal each, each time somebody is known to be waiting (taking
			// the mutex first guarantees that the waiter has registered inside Wait)
			for k := 0; k < n; k++ {
				sim.WaitUntil("signaller", func() bool { return waiting > 0 || woken+ready >= n })
				mu.Lock()
				ready++
				mu.Unlock()
				cond.Signal()
			}
			wg.Wait()
			if done != n {
				fail = fmt.Sprintf("WaitGroup.Wait returned with %d of %d done", done, n)
			}
		})
		if fail != "" {
			t.Fatalf("seed %d: %s", seed, fail)
		}
		if out.Verdict != "done" || len(out.Panics) > 0 {
			t.Fatalf("seed %d: verdict %s panics %v %v", seed, out.Verdict, out.Panics, out.StuckReport)
		}
	}
}

func TestWaitGroupNegativePanics(t *testing.T) {
	inSim(t, 1, func() {
		defer func() {
			if recover() == nil {
				t.Errorf("negative WaitGroup counter did not panic")
			}
		}()
		var wg vsync.WaitGroup
		wg.Add(1)
		wg.Done()
		wg.Done()
	})
}

// The stand-in for reflect.Select polls its cases itself and only falls back to the real call when
// it has to block, so it must reproduce the real call's refusal of more than 65536 cases.
func TestReflectSelectCaseLimitAgrees(t *testing.T) {
	mk := func(n int) []reflect.SelectCase {
		cs := make([]reflect.SelectCase, n)
		for i := range cs {
			c := make(chan int)
			close(c)
			cs[i] = reflect.SelectCase{Dir: reflect.SelectRecv, Chan: reflect.ValueOf(c)}
		}
		return cs
	}
	catch := func(f func()) (msg string) {
		defer func() {
			if p := recover(); p != nil {
				msg = fmt.Sprint(p)
			}
		}()
		f()
		return ""
	}
	for _, n := range []int{65536, 65537} {
		cs := mk(n)
		real := catch(func() { reflect.Select(cs) })
		var stand string
		inSim(t, 1, func() { stand = catch(func() { sim.ReflectSelect(cs) }) })
		if real != stand {
			t.Fatalf("%d cases: reflect.Select panics with %q, the stand-in with %q", n, real, stand)
		}
	}
}

// The sync.Map stand-in against the real one: random operation sequences over a few keys and
// values (nil among them) must give the same results; Range is compared as a set.
func TestMapAgreesWithSyncMap(t *testing.T) {
	keys := []any{nil, 1, "k", 2.5}
	vals := []any{nil, 1, "x", 7}
	for seed := uint64(1); seed <= 300; seed++ {
		var real stdsync.Map
		var log []string
		inSim(t, seed, func() {
			var m vsync.Map
			for i := 0; i < 60; i++ {
				k := keys[sim.Choose(len(keys), "k")]
				v := vals[sim.Choose(len(vals), "v")]
				v2 := vals[sim.Choose(len(vals), "v2")]
				var a, b string
				switch op := sim.Choose(9, "op"); op {
				case 0:
					m.Store(k, v)
					real.Store(k, v)
				case 1:
					x, ok := m.Load(k)
					y, ok2 := real.Load(k)
					a, b = fmt.Sprint(x, ok), fmt.Sprint(y, ok2)
				case 2:
					x, ok := m.LoadOrStore(k, v)
					y, ok2 := real.LoadOrStore(k, v)
					a, b = fmt.Sprint(x, ok), fmt.Sprint(y, ok2)
				case 3:
					x, ok := m.LoadAndDelete(k)
					y, ok2 := real.LoadAndDelete(k)
					a, b = fmt.Sprint(x, ok), fmt.Sprint(y, ok2)
				case 4:
					m.Delete(k)
					real.Delete(k)
				case 5:
					x, ok := m.Swap(k, v)
					y, ok2 := real.Swap(k, v)
					a, b = fmt.Sprint(x, ok), fmt.Sprint(y, ok2)
				case 6:
					a, b = fmt.Sprint(m.CompareAndSwap(k, v, v2)), fmt.Sprint(real.CompareAndSwap(k, v, v2))
				case 7:
					a, b = fmt.Sprint(m.CompareAndDelete(k, v)), fmt.Sprint(real.CompareAndDelete(k, v))
				default:
					var xs, ys []string
					m.Range(func(k, v any) bool { xs = append(xs, fmt.Sprint(k, "=", v)); return true })
					real.Range(func(k, v any) bool { ys = append(ys, fmt.Sprint(k, "=", v)); return true })
					sort.Strings(xs)
					sort.Strings(ys)
					a, b = fmt.Sprint(xs), fmt.Sprint(ys)
				}
				if a != b {
					log = append(log, fmt.Sprintf("seed %d step %d: stand-in %s, sync.Map %s", seed, i, a, b))
					return
				}
			}
		})
		if len(log) > 0 {
			t.Fatal(log[0])
		}
	}
}
