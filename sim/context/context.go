// Package context is the simulator's drop-in for context: the real context package with a
// schedule point in front of every cancel function.
package context

import (
	stdctx "context"
	"time"

	"verifsim/sim"
)

type (
	Context         = stdctx.Context
	CancelFunc      = stdctx.CancelFunc
	CancelCauseFunc = stdctx.CancelCauseFunc
)

var (
	Canceled         = stdctx.Canceled
	DeadlineExceeded = stdctx.DeadlineExceeded
)

func Background() Context { return stdctx.Background() }
func TODO() Context       { return stdctx.TODO() }

func wrap(c CancelFunc) CancelFunc {
	return func() {
		if sim.Active() && !sim.Tearing() {
			sim.Pre("context.cancel")
			c()
			sim.After("context.cancel")
			return
		}
		c()
	}
}

func WithCancel(parent Context) (Context, CancelFunc) {
	ctx, c := stdctx.WithCancel(parent)
	return ctx, wrap(c)
}

func WithCancelCause(parent Context) (Context, CancelCauseFunc) {
	ctx, c := stdctx.WithCancelCause(parent)
	return ctx, func(cause error) {
		if sim.Active() && !sim.Tearing() {
			sim.Pre("context.cancel")
			c(cause)
			sim.After("context.cancel")
			return
		}
		c(cause)
	}
}

func WithDeadline(parent Context, d time.Time) (Context, CancelFunc) {
	ctx, c := stdctx.WithDeadline(parent, d)
	return ctx, wrap(c)
}

func WithTimeout(parent Context, d time.Duration) (Context, CancelFunc) {
	ctx, c := stdctx.WithTimeout(parent, d)
	return ctx, wrap(c)
}

func WithDeadlineCause(parent Context, d time.Time, cause error) (Context, CancelFunc) {
	ctx, c := stdctx.WithDeadlineCause(parent, d, cause)
	return ctx, wrap(c)
}

func WithTimeoutCause(parent Context, d time.Duration, cause error) (Context, CancelFunc) {
	ctx, c := stdctx.WithTimeoutCause(parent, d, cause)
	return ctx, wrap(c)
}

func WithValue(parent Context, key, val any) Context { return stdctx.WithValue(parent, key, val) }

func Cause(c Context) error { return stdctx.Cause(c) }

func WithoutCancel(parent Context) Context { return stdctx.WithoutCancel(parent) }

func AfterFunc(ctx Context, f func()) (stop func() bool) {
	key := sim.TimerKey()
	return stdctx.AfterFunc(ctx, func() { sim.RunTimerTask("context.AfterFunc", key, f) })
}
