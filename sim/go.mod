module verifsim

go 1.26.8
