// Package rand is the simulator's drop-in for math/rand: the package-level functions (the global
// source) draw from the run's choice tape, biased towards the extremes; explicit *rand.Rand values
// are the real thing.
package rand

import (
	stdrand "math/rand"

	"verifsim/sim"
)

type (
	Rand     = stdrand.Rand
	Source   = stdrand.Source
	Source64 = stdrand.Source64
	Zipf     = stdrand.Zipf
)

func New(src Source) *Rand        { return stdrand.New(src) }
func NewSource(seed int64) Source { return stdrand.NewSource(seed) }

func active() bool { return sim.Active() && !sim.Tearing() }

// Int63n: 0, n-1, the middle, or uniform-ish from the tape.
func Int63n(n int64) int64 {
	if n <= 0 {
		panic("invalid argument to Int63n")
	}
	if !active() {
		return stdrand.Int63n(n)
	}
	switch sim.Choose(4, "rand-class") {
	case 0:
		return 0
	case 1:
		return n - 1
	case 2:
		return n / 2
	}
	return int64(sim.Choose(1<<30, "rand")) % n
}

func Int31n(n int32) int32 { return int32(Int63n(int64(n))) }
func Intn(n int) int {
	if n <= 0 {
		panic("invalid argument to Intn")
	}
	return int(Int63n(int64(n)))
}
func Int63() int64 { return Int63n(1<<62) }
func Int31() int32 { return int32(Int63n(1 << 31)) }
func Int() int     { return int(Int63()) }
func Uint32() uint32 { return uint32(Int63n(1 << 32)) }

// Float64 in [0,1): 0, just under 1, 0.5, or from the tape.
func Float64() float64 {
	if !active() {
		return stdrand.Float64()
	}
	switch sim.Choose(4, "rand-class") {
	case 0:
		return 0
	case 1:
		return 0.9999999
	case 2:
		return 0.5
	}
	return float64(sim.Choose(1<<20, "rand")) / float64(1<<20)
}
func Float32() float32 { return float32(Float64()) }

func Shuffle(n int, swap func(i, j int)) {
	for i := n - 1; i > 0; i-- {
		j := Intn(i + 1)
		swap(i, j)
	}
}

func Perm(n int) []int {
	m := make([]int, n)
	for i := range m {
		m[i] = i
	}
	Shuffle(n, func(i, j int) { m[i], m[j] = m[j], m[i] })
	return m
}

func Seed(seed int64) {}

func ExpFloat64() float64  { return stdrand.ExpFloat64() }
func NormFloat64() float64 { return stdrand.NormFloat64() }

func Uint64() uint64 { return uint64(Int63())<<1 | uint64(Int63n(2)) }
func NewZipf(r *Rand, s float64, v float64, imax uint64) *Zipf { return stdrand.NewZipf(r, s, v, imax) }
func Read(p []byte) (n int, err error) {
	for i := range p {
		p[i] = byte(Int63n(256))
	}
	return len(p), nil
}
