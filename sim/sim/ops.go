package sim

import (
	"reflect"
)

// The functions in this file are what the source rewriter substitutes for Go's channel
// operations. Each is: yield; the real operation (with an extra kill arm so that a blocked
// goroutine can be unwound at teardown); re-queue if the operation blocked.

// Send replaces `c <- v`.
func Send[T any](c chan<- T, v T, site string) {
	t := Pre(site)
	BeginOp(t)
	select {
	case c <- v:
	case <-t.kill:
		panic(Killed)
	}
	EndOp(t)
}

// Recv replaces `<-c`.
func Recv[T any](c <-chan T, site string) T {
	t := Pre(site)
	BeginOp(t)
	var v T
	select {
	case v = <-c:
	case <-t.kill:
		panic(Killed)
	}
	EndOp(t)
	return v
}

// Recv2 replaces `v, ok := <-c`.
func Recv2[T any](c <-chan T, site string) (T, bool) {
	t := Pre(site)
	BeginOp(t)
	var v T
	var ok bool
	select {
	case v, ok = <-c:
	case <-t.kill:
		panic(Killed)
	}
	EndOp(t)
	return v, ok
}

// Close replaces `close(c)`.
func Close[T any](c chan<- T, site string) {
	Pre(site)
	close(c)
	After(site)
}

// CloseBidi is Close for bidirectional channels whose element type cannot be inferred through a
// send-only parameter (not needed with current Go inference, kept for clarity).
func CloseBidi[T any](c chan T, site string) { Close[T](c, site) }

// TryRecv is a non-blocking receive used when polling select arms.
func TryRecv[T any](c <-chan T) (v T, ok bool, got bool) {
	select {
	case v, ok = <-c:
		got = true
	default:
	}
	return
}

// TrySend is a non-blocking send used when polling select arms.
func TrySend[T any](c chan<- T, v T) bool {
	select {
	case c <- v:
		return true
	default:
		return false
	}
}

// ZeroOf returns the zero value of c's element type (to declare typed temporaries).
func ZeroOf[T any](c <-chan T) (z T) { return }

// SendVal converts v to c's element type (so that untyped constants get the right type).
func SendVal[T any](c chan<- T, v T) T { return v }

// SelectOrder returns the order in which the n arms of a select are polled: a tape-chosen
// rotation of source order, so any ready arm can be the one that wins and 0 means source order.
func SelectOrder(site string, n int) []int {
	s := must()
	k := s.tape.Choose(n, "select")
	out := make([]int, n)
	for i := range out {
		out[i] = (k + i) % n
	}
	return out
}

// ReflectSelect replaces reflect.Select.
func ReflectSelect(cases []reflect.SelectCase) (int, reflect.Value, bool) {
	t := Pre("reflect.Select")
	n := len(cases)
	if n > 65536 {
		// the poll path below never reaches the real reflect.Select, which refuses this
		panic("reflect.Select: too many cases (max 65536)")
	}
	if n > 0 {
		for _, i := range SelectOrder("reflect.Select", n) {
			c := cases[i]
			switch c.Dir {
			case reflect.SelectRecv:
				if !c.Chan.IsValid() || c.Chan.IsNil() {
					continue
				}
				if v, ok := c.Chan.TryRecv(); ok || v.IsValid() {
					// TryRecv: (zero Value, false) means would block; (zero-of-elem, false) means closed.
					After("reflect.Select")
					return i, v, ok
				}
			case reflect.SelectSend:
				if !c.Chan.IsValid() || c.Chan.IsNil() {
					continue
				}
				if c.Chan.TrySend(c.Send) {
					After("reflect.Select")
					return i, reflect.Value{}, false
				}
			case reflect.SelectDefault:
			}
		}
		for i, c := range cases {
			if c.Dir == reflect.SelectDefault {
				After("reflect.Select")
				return i, reflect.Value{}, false
			}
		}
	}
	all := make([]reflect.SelectCase, n+1)
	copy(all, cases)
	all[n] = reflect.SelectCase{Dir: reflect.SelectRecv, Chan: reflect.ValueOf(t.kill)}
	BeginOp(t)
	chosen, v, ok := reflect.Select(all)
	if chosen == n {
		panic(Killed)
	}
	EndOp(t)
	return chosen, v, ok
}
