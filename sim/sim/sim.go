package sim

import (
	"fmt"
	"runtime/debug"
	"sort"
	"strings"
	"sync"
	"testing/synctest"
	"time"
)

// Strategy kinds.
const (
	StratRandom = iota
	StratSticky
	StratPCT
	NumStrategies
)

var StrategyNames = []string{"random", "sticky", "pct"}

// Config is the per-run configuration (drawn from the tape by the runner).
type Config struct {
	Strategy   int
	PostYield  bool // yield also after every synchronisation operation
	StallPer1k int  // probability (per 1000 scheduling steps) that the root lets simulated time pass although tasks are ready
	LatePer1k  int  // probability (per 1000 timers) that a timer is armed late
	MaxSteps   int
	// SpinLimit > 0: a task that has been the only runnable one for this many consecutive
	// scheduling points without the harness recording any progress (NoteProgress) is spinning.
	// Simulated time is then allowed to pass (as it would in reality); if no timer is pending
	// either, nothing can ever change what it is waiting for: the run ends with verdict "livelock".
	SpinLimit int
	// TaskStallPer1k: per thousand schedule points, the chance that the task reaching it is
	// descheduled for 9-360 ms of simulated time while the others go on.
	TaskStallPer1k int
	// ClockTickPer1k: per thousand readings of the clock by the code under test (time.Now, Since,
	// Until), the chance that a few nanoseconds pass first - two readings in a row need not agree,
	// as on a real machine. 0: the clock stands still while a task runs.
	ClockTickPer1k int
	Horizon    time.Duration
	GOMAXPROCS int
	Trace      bool
	PCTDepth   int
	PCTSpan    int
	// AsyncTimerChan: timers created through the time drop-in have the pre-Go-1.23 channel
	// semantics (buffered channel, Stop reports false after firing, no draining).
	AsyncTimerChan bool
}

type taskState int

const (
	stReady   taskState = iota // parked on grant, wants to run
	stRunning                  // holds the token
	stInOp                     // holds the token and is inside a real (possibly blocking) operation
	stBlocked                  // durably blocked in a real operation; token taken away
	stParked                   // parked on a simulator-level primitive (mutex, cond, waitgroup, WaitStuck)
	stDone
)

// Task is one goroutine under the scheduler's control.
type Task struct {
	ID    int
	Name  string
	grant chan struct{}
	kill  chan struct{}
	state taskState
	lost  bool // the root took the token away while the task was blocked in a real operation
	site  string
	prio  int
	// Label is free for worlds: what library call the task is inside (for stuck reports).
	Label      string
	awaitStuck bool
	awaitIdle  bool
	cond       func() bool
}

func (t *Task) String() string { return fmt.Sprintf("T%d(%s)", t.ID, t.Name) }

// Site returns the last synchronisation site of the task.
func (t *Task) Site() string { return t.site }

type killedSentinel struct{}

// Killed is the panic value used to unwind tasks at teardown.
var Killed = killedSentinel{}

// TraceEntry is one line of the step-by-step schedule.
type TraceEntry struct {
	Seq  uint64
	At   time.Duration
	Task int
	What string
}

// Outcome is what the scheduler reports about one run.
type Outcome struct {
	Verdict     string // done | stuck | stepcap | livelock
	Livelock    string // verdict livelock: the spinning task
	LivelockSite string
	Steps       int
	Switches    int
	SimTime     time.Duration
	SchedHash   uint64
	Panics      []string
	StuckReport []string
	Stalls      int
	TaskStalls  int
	LateTimers  int
	ClockTicks  int
	Trace       []TraceEntry
	Tasks       int
	SwitchPairs map[string]struct{}
}

type Sim struct {
	mu       sync.Mutex // bookkeeping only; never held across a park
	tape     *Tape
	cfg      Config
	tasks    []*Task
	current  *Task
	last     *Task
	wake     chan struct{}
	soleRun      int
	progress     uint64
	progressSeen uint64
	nextID   int
	seq      uint64
	start    time.Time
	tearing  bool
	out      Outcome
	timers   []*time.Timer
	pctNext  []int
	lowPrio  int
	onStuck  func()
	timerSeq int
	lastSite string
	jumps    int
}

var cur *Sim

var epoch uint64

// Epoch identifies the current run (objects that must not outlive a run compare it).
func Epoch() uint64 { return epoch }

// Active reports whether a simulation is running.
func Active() bool { return cur != nil }

// OutsideSim is the panic value of a simulator primitive that is used while no simulation is
// running: the code under test has reached a synchronisation operation in a world that runs
// without the scheduler. The runner catches it and runs the world again under the scheduler.
type OutsideSim struct{}

func (OutsideSim) String() string { return "verifsim: simulator primitive used outside a simulation" }

func must() *Sim {
	s := cur
	if s == nil {
		panic(OutsideSim{})
	}
	return s
}

// Run executes main as task 0 under the scheduler. It must be called on the root goroutine of a
// synctest bubble. onStuck (may be nil) is called on the root goroutine when nothing can run any
// more, no timer is pending and no task is waiting in WaitStuck.
func Run(tape *Tape, cfg Config, main func(), onStuck func()) *Outcome {
	if cur != nil {
		panic("verifsim: nested simulation")
	}
	if cfg.MaxSteps <= 0 {
		cfg.MaxSteps = 5000
	}
	if cfg.Horizon <= 0 {
		cfg.Horizon = 1000 * time.Hour
	}
	if cfg.GOMAXPROCS <= 0 {
		cfg.GOMAXPROCS = 2
	}
	s := &Sim{tape: tape, cfg: cfg, wake: make(chan struct{}, 1), start: time.Now(), onStuck: onStuck}
	s.out.SchedHash = 14695981039346656037
	s.out.SwitchPairs = map[string]struct{}{}
	if cfg.Strategy == StratPCT {
		span := cfg.PCTSpan
		if span <= 0 {
			span = 200
		}
		for i := 0; i < cfg.PCTDepth; i++ {
			s.pctNext = append(s.pctNext, tape.Choose(span, "pct-point"))
		}
		sort.Ints(s.pctNext)
	}
	for _, f := range resets {
		f() // package state of the code under test as in a fresh process
	}
	cur = s
	epoch++
	defer func() { cur = nil }()
	s.spawn("main", main)
	s.loop()
	s.teardown()
	s.out.SimTime = time.Since(s.start) - time.Duration(s.jumps)*s.cfg.Horizon
	s.out.Tasks = len(s.tasks)
	return &s.out
}

func (s *Sim) hash(x uint64) {
	s.out.SchedHash ^= x
	s.out.SchedHash *= 1099511628211
}

func (s *Sim) trace(t *Task, format string, args ...any) {
	if !s.cfg.Trace {
		return
	}
	id := -1
	if t != nil {
		id = t.ID
	}
	s.out.Trace = append(s.out.Trace, TraceEntry{Seq: s.seq, At: time.Since(s.start), Task: id, What: fmt.Sprintf(format, args...)})
}

func (s *Sim) spawn(name string, f func()) *Task {
	t := &Task{Name: name, grant: make(chan struct{}, 1), kill: make(chan struct{}), state: stReady}
	s.mu.Lock()
	t.ID = s.nextID
	s.nextID++
	s.tasks = append(s.tasks, t)
	s.mu.Unlock()
	if s.cfg.Strategy == StratPCT {
		t.prio = 1 + s.tape.Choose(1000, "prio")
	}
	go s.body(t, f)
	return t
}

func (s *Sim) body(t *Task, f func()) {
	defer s.exit(t)
	t.park()
	f()
}

func (s *Sim) exit(t *Task) {
	r := recover()
	if r != nil {
		if _, ok := r.(killedSentinel); !ok {
			msg := fmt.Sprintf("panic in %v at %s: %v\n%s", t, t.site, r, trimStack(debug.Stack()))
			s.mu.Lock()
			s.out.Panics = append(s.out.Panics, msg)
			s.mu.Unlock()
		}
	}
	s.mu.Lock()
	t.state = stDone
	if s.current == t {
		s.current = nil
	}
	s.mu.Unlock()
	select {
	case s.wake <- struct{}{}:
	default:
	}
}

func trimStack(b []byte) string {
	lines := strings.Split(string(b), "\n")
	var out []string
	for _, l := range lines {
		if strings.Contains(l, "runtime/") || strings.Contains(l, "runtime.") || strings.Contains(l, "verifsim/sim.(*Sim).exit") {
			continue
		}
		out = append(out, l)
		if len(out) > 24 {
			break
		}
	}
	return strings.Join(out, "\n")
}

var resets []func()

// RegisterReset registers a function that restores a package's variables to their initial values
// (generated by the rewriter); every run starts by calling all of them.
func RegisterReset(f func()) { resets = append(resets, f) }

// NoteProgress tells the scheduler that the harness has observed something (a call began or ended,
// an item arrived): whatever runs is not merely spinning. A no-op outside a simulation.
func NoteProgress() {
	if s := cur; s != nil {
		s.progress++
	}
}

// park blocks until the root grants the token (or the task is killed at teardown).
func (t *Task) park() {
	select {
	case <-t.grant:
	case <-t.kill:
		panic(Killed)
	}
}

func (s *Sim) loop() {
	horizon := time.NewTimer(s.cfg.Horizon)
	defer horizon.Stop()
	horizonFired := false
	for {
		synctest.Wait()
		s.mu.Lock()
		if c := s.current; c != nil {
			if c.state == stInOp {
				c.state = stBlocked
				c.lost = true
			}
			s.current = nil
		}
		snapshot := append([]*Task(nil), s.tasks...)
		s.mu.Unlock()
		// WaitUntil conditions are evaluated here: every task is parked, so harness state is stable.
		for _, t := range snapshot {
			if t.state == stParked && t.cond != nil && t.cond() {
				t.cond = nil
				s.mu.Lock()
				t.state = stReady
				s.mu.Unlock()
			}
		}
		s.mu.Lock()
		var ready []*Task
		alive := 0
		for _, t := range s.tasks {

			if t.state != stDone {
				alive++
			}
			if t.state == stReady {
				ready = append(ready, t)
			}
		}
		mainDone := s.tasks[0].state == stDone
		s.mu.Unlock()
		if mainDone || alive == 0 {
			s.out.Verdict = "done"
			return
		}
		if len(ready) == 0 {
			// WaitIdle waiters run when nobody else can (before simulated time moves on).
			wokeIdle := false
			s.mu.Lock()
			for _, t := range s.tasks {
				if t.state == stParked && t.awaitIdle {
					t.awaitIdle = false
					t.state = stReady
					wokeIdle = true
				}
			}
			s.mu.Unlock()
			if wokeIdle {
				continue
			}
			// Everyone is blocked. Let simulated time move to the next timer; if that is our own
			// horizon timer nothing else can ever happen.
			if !horizonFired {
				horizon.Reset(s.cfg.Horizon)
				select {
				case <-s.wake:
					continue
				case <-horizon.C:
				}
				s.jumps++
				// Simulated time has passed without waking any task (e.g. a context deadline nobody
				// was blocked on): WaitUntil conditions may have become true, so look once more.
				horizonFired = true
				continue
			}
			horizonFired = false
			// Fully stuck: wake WaitStuck waiters if any.
			woke := false
			s.mu.Lock()
			for _, t := range s.tasks {
				if t.state == stParked && t.awaitStuck {
					t.awaitStuck = false
					t.state = stReady
					woke = true
				}
			}
			s.mu.Unlock()
			if woke {
				s.trace(nil, "quiescent: waking WaitStuck waiters")
				continue
			}
			s.out.Verdict = "stuck"
			s.mu.Lock()
			for _, t := range s.tasks {
				if t.state != stDone {
					s.out.StuckReport = append(s.out.StuckReport, fmt.Sprintf("%v state=%d site=%s label=%s", t, t.state, t.site, t.Label))
				}
			}
			s.mu.Unlock()
			if s.onStuck != nil {
				s.onStuck()
			}
			return
		}
		horizonFired = false
		if s.cfg.SpinLimit > 0 {
			if len(ready) == 1 && ready[0] == s.last && s.progress == s.progressSeen {
				s.soleRun++
			} else {
				s.soleRun = 0
				s.progressSeen = s.progress
			}
			if s.soleRun > s.cfg.SpinLimit {
				// Busy-waiting does not stop the clock in reality: let simulated time pass.
				horizon.Reset(s.cfg.Horizon)
				select {
				case <-s.wake:
					// (possibly a stale token: if nobody else has become runnable the count is
					// still over the limit and we come straight back here)
					continue
				case <-horizon.C:
				}
				s.jumps++
				t := ready[0]
				s.out.Verdict = "livelock"
				s.out.Livelock = fmt.Sprintf("%v site=%s label=%s", t, t.site, t.Label)
				s.out.LivelockSite = t.site
				return
			}
		}
		s.out.Steps++
		if s.out.Steps > s.cfg.MaxSteps {
			s.out.Verdict = "stepcap"
			return
		}
		if s.cfg.StallPer1k > 0 && s.tape.Choose(1000, "stall?") >= 1000-s.cfg.StallPer1k {
			d := time.Duration(1+s.tape.Choose(50, "stall-d")) * 7 * time.Millisecond
			s.out.Stalls++
			s.trace(nil, "stall %v", d)
			time.Sleep(d)
			continue
		}
		t := s.pick(ready)
		if t != s.last {
			s.out.Switches++
			if s.last != nil {
				s.out.SwitchPairs[s.lastSite+">"+t.site] = struct{}{}
			}
		}
		s.hash(uint64(t.ID)*1000003 + MixString(t.site))
		s.seq++
		s.trace(t, "run @%s", t.site)
		s.last = t
		s.lastSite = t.site
		s.mu.Lock()
		s.current = t
		t.state = stRunning
		s.mu.Unlock()
		t.grant <- struct{}{}
	}
}

func (s *Sim) pick(ready []*Task) *Task {
	sort.Slice(ready, func(i, j int) bool { return ready[i].ID < ready[j].ID })
	// the task that ran last goes first: choice 0 == "no context switch"
	for i, t := range ready {
		if t == s.last {
			copy(ready[1:i+1], ready[:i])
			ready[0] = t
			break
		}
	}
	n := len(ready)
	switch s.cfg.Strategy {
	case StratSticky:
		if n == 1 {
			return ready[0]
		}
		if s.tape.Choose(4, "stick") != 3 {
			return ready[0]
		}
		return ready[s.tape.Choose(n, "sched")]
	case StratPCT:
		best := ready[0]
		for _, t := range ready[1:] {
			if t.prio > best.prio || (t.prio == best.prio && t.ID < best.ID) {
				best = t
			}
		}
		for len(s.pctNext) > 0 && s.pctNext[0] <= s.out.Steps {
			s.pctNext = s.pctNext[1:]
			s.lowPrio--
			best.prio = s.lowPrio
			b2 := ready[0]
			for _, t := range ready[1:] {
				if t.prio > b2.prio || (t.prio == b2.prio && t.ID < b2.ID) {
					b2 = t
				}
			}
			best = b2
		}
		return best
	default:
		return ready[s.tape.Choose(n, "sched")]
	}
}

func (s *Sim) teardown() {
	s.mu.Lock()
	s.tearing = true
	tasks := append([]*Task(nil), s.tasks...)
	timers := s.timers
	s.mu.Unlock()
	for _, tm := range timers {
		tm.Stop()
	}
	for i := 0; i < 3; i++ { // tasks may be spawned by timers while we tear down; a few rounds suffice
		for _, t := range tasks {
			if t.state != stDone {
				select {
				case <-t.kill:
				default:
					close(t.kill)
				}
				synctest.Wait()
			}
		}
		s.mu.Lock()
		tasks = append([]*Task(nil), s.tasks...)
		s.mu.Unlock()
	}
}

// ---- task-side primitives ----------------------------------------------------------------

func (s *Sim) self() *Task {
	if s.tearing {
		panic(Killed)
	}
	t := s.current
	if t == nil {
		panic("verifsim: no current task (a goroutine outside the scheduler's control called a simulator primitive)")
	}
	return t
}

// Self returns the task that holds the token.
func Self() *Task { return must().self() }

// Pre is a yield point: the calling task (which must hold the token) gives the token back and
// waits to be scheduled again.
func Pre(site string) *Task {
	s := must()
	t := s.self()
	t.site = site
	s.mu.Lock()
	t.state = stReady
	s.mu.Unlock()
	t.park()
	// Fault: this one task is descheduled for a while (a slow node: a goroutine that does not get
	// the processor, a page fault, a stopped process) while everything else goes on - unlike a
	// stall, which stops the clock for everybody alike.
	if s.cfg.TaskStallPer1k > 0 && !s.tearing && s.tape.Choose(1000, "task-stall?") >= 1000-s.cfg.TaskStallPer1k {
		d := time.Duration(1+s.tape.Choose(40, "task-stall-d")) * 9 * time.Millisecond
		s.out.TaskStalls++
		s.trace(t, "task stall %v", d)
		tm := time.NewTimer(d)
		BeginOp(t)
		select {
		case <-tm.C:
		case <-t.kill:
			tm.Stop()
			panic(Killed)
		}
		EndOp(t)
		t.site = site
	}
	return t
}

// Yield is Pre for operations that cannot block.
func Yield(site string) { Pre(site) }

// After is called after a non-blocking synchronisation operation; it yields again in runs that are
// configured to have schedule points on both sides of every operation.
func After(site string) {
	s := must()
	if s.cfg.PostYield {
		Pre(site)
	}
}

// BeginOp marks that t is about to perform a real operation that may block durably.
func BeginOp(t *Task) {
	s := must()
	s.mu.Lock()
	t.state = stInOp
	s.mu.Unlock()
}

// EndOp is called right after the real operation returned. If the root took the token away while
// the task was blocked, the task queues up to be scheduled again.
func EndOp(t *Task) {
	s := must()
	s.mu.Lock()
	if s.tearing {
		s.mu.Unlock()
		panic(Killed)
	}
	if t.lost {
		t.lost = false
		t.state = stReady
		s.mu.Unlock()
		select {
		case s.wake <- struct{}{}:
		default:
		}
		t.park()
		return
	}
	t.state = stRunning
	s.mu.Unlock()
	if s.cfg.PostYield {
		Pre(t.site)
	}
}

// KillC returns the channel that is closed when t is torn down; every real blocking operation
// selects on it too, so that no goroutine outlives its run.
func KillC(t *Task) <-chan struct{} { return t.kill }

// Die unwinds the calling goroutine (used in the kill arm of rewritten selects).
func Die() { panic(Killed) }

// Go starts f as a new task. The caller must hold the token.
func Go(site string, f func()) {
	s := must()
	parent := s.self()
	t := s.spawn(site, f)
	s.trace(parent, "go %v", t)
	After(site)
}

// GoNamed is Go with a task name chosen by the harness.
func GoNamed(name string, f func()) *Task {
	s := must()
	s.self()
	return s.spawn(name, f)
}

// ParkSelf parks the calling task on a simulator-level primitive until MakeReady is called for it.
func ParkSelf(site string) {
	s := must()
	t := s.self()
	t.site = site
	s.mu.Lock()
	t.state = stParked
	s.mu.Unlock()
	t.park()
}

// MakeReady makes a task parked by ParkSelf schedulable again. Called by the token holder.
func MakeReady(t *Task) {
	s := must()
	s.mu.Lock()
	if t.state == stParked {
		t.state = stReady
	}
	s.mu.Unlock()
}

// WaitStuck parks the calling task until nothing else can run and no timer is pending (simulated
// time will have jumped by the horizon). Worlds use it to evaluate end-of-phase oracles.
func WaitStuck(site string) {
	s := must()
	t := s.self()
	t.site = site
	s.mu.Lock()
	t.state = stParked
	t.awaitStuck = true
	s.mu.Unlock()
	t.park()
}

// WaitUntil parks the calling task until cond (evaluated by the scheduler at every scheduling
// point, while every task is parked) becomes true. Unlike a spin loop it cannot starve other tasks
// under priority scheduling.
func WaitUntil(site string, cond func() bool) {
	s := must()
	t := s.self()
	if cond() {
		return
	}
	t.site = site
	s.mu.Lock()
	t.state = stParked
	t.cond = cond
	s.mu.Unlock()
	t.park()
}

// BlockedInOp reports whether the task is durably blocked inside a real operation (channel
// operation, select, sleep).
func (t *Task) BlockedInOp() bool {
	s := must()
	s.mu.Lock()
	defer s.mu.Unlock()
	return t.state == stBlocked
}

// WaitIdle parks the calling task until no other task is ready at the current simulated instant
// (everything else is blocked, asleep or finished); simulated time does not move.
func WaitIdle(site string) {
	s := must()
	t := s.self()
	t.site = site
	s.mu.Lock()
	t.state = stParked
	t.awaitIdle = true
	s.mu.Unlock()
	t.park()
}

// Parked reports whether the task is parked on a simulator-level primitive (mutex, cond, waitgroup).
func (t *Task) Parked() bool {
	s := must()
	s.mu.Lock()
	defer s.mu.Unlock()
	return t.state == stParked
}

// Sleep lets simulated time pass for the calling task.
func Sleep(d time.Duration, site string) {
	t := Pre(site)
	tm := time.NewTimer(d)
	BeginOp(t)
	select {
	case <-tm.C:
	case <-t.kill:
		tm.Stop()
		panic(Killed)
	}
	EndOp(t)
}

// RunTimerTask runs f as a task; it is called on the goroutine the runtime starts for a fired
// time.AfterFunc timer (which is not under the scheduler's control until it registers here).
func RunTimerTask(site string, key int, f func()) {
	s := cur
	if s == nil {
		return
	}
	s.mu.Lock()
	if s.tearing {
		s.mu.Unlock()
		return
	}
	t := &Task{Name: site, grant: make(chan struct{}, 1), kill: make(chan struct{}), state: stReady, site: site}
	t.ID = 1000000 + key
	s.tasks = append(s.tasks, t)
	s.mu.Unlock()
	defer s.exit(t)
	select {
	case s.wake <- struct{}{}:
	default:
	}
	t.park()
	f()
}

// TimerKey allocates a deterministic key for a timer created by the token holder.
func TimerKey() int {
	s := must()
	s.timerSeq++
	return s.timerSeq * 1000
}

// TrackTimer registers a real timer to be stopped at teardown.
func TrackTimer(tm *time.Timer) {
	s := must()
	s.mu.Lock()
	s.timers = append(s.timers, tm)
	s.mu.Unlock()
}

// ClockTick is called by the time stand-in before it reads the clock for the code under test: in
// runs that have the fault enabled, a few nanoseconds of simulated time may pass first (a schedule
// point as well, since simulated time only passes while nobody runs).
func ClockTick() {
	s := cur
	if s == nil || s.cfg.ClockTickPer1k <= 0 || s.tearing || s.current == nil {
		return
	}
	if s.tape.Choose(1000, "clock-tick?") >= 1000-s.cfg.ClockTickPer1k {
		s.out.ClockTicks++
		// (an even number of nanoseconds: deadlines handed in by the harness carry an odd one, so that a
		// tick never makes a timer and a deadline fall due at the same instant in one select)
		Sleep(time.Duration(2*(1+s.tape.Choose(3, "clock-tick-ns"))), "clock-tick")
	}
}

// Lateness returns a non-negative extra delay for a timer (Go only promises "at least d").
func Lateness() time.Duration {
	s := must()
	if s.cfg.LatePer1k <= 0 || s.tearing {
		return 0
	}
	if s.tape.Choose(1000, "late?") >= 1000-s.cfg.LatePer1k {
		s.out.LateTimers++
		return time.Duration(1+s.tape.Choose(40, "late-d")) * 3 * time.Millisecond
	}
	return 0
}

// AsyncTimerChan reports which timer-channel semantics this run simulates.
func AsyncTimerChan() bool {
	s := cur
	return s != nil && s.cfg.AsyncTimerChan
}

// Choose draws from the run's tape (for harness parties and drop-ins such as math/rand).
func Choose(n int, kind string) int { return must().tape.Choose(n, kind) }

// TheTape returns the current run's tape.
func TheTape() *Tape { return must().tape }

// Now returns simulated time since the start of the run.
func Now() time.Duration { return time.Since(must().start) }

// Seq returns a fresh global event sequence number.
func Seq() uint64 {
	s := must()
	s.seq++
	return s.seq
}

// Tracef adds a line to the run's trace (only kept when tracing).
func Tracef(format string, args ...any) {
	s := cur
	if s == nil || !s.cfg.Trace || s.tearing {
		return
	}
	s.mu.Lock()
	s.seq++
	s.out.Trace = append(s.out.Trace, TraceEntry{Seq: s.seq, At: time.Since(s.start), Task: curID(s), What: fmt.Sprintf(format, args...)})
	s.mu.Unlock()
}

func curID(s *Sim) int {
	if s.current != nil {
		return s.current.ID
	}
	return -1
}

// HashEvent folds a harness-visible event into the run hash (used by the determinism self-test and
// for the distinct-history measure).
func HashEvent(x uint64) {
	s := cur
	if s == nil {
		return
	}
	s.hash(x)
}

// Tearing reports whether the run is being torn down.
func Tearing() bool { s := cur; return s == nil || s.tearing }

// GOMAXPROCS stands in for runtime.GOMAXPROCS (a positive argument sets it, as the real one does).
func GOMAXPROCS(n int) int {
	s := must()
	old := s.cfg.GOMAXPROCS
	if n > 0 {
		s.cfg.GOMAXPROCS = n
	}
	return old
}

// TaskStates describes all live tasks (for stuck oracles).
func TaskStates() []string {
	s := must()
	s.mu.Lock()
	defer s.mu.Unlock()
	var out []string
	for _, t := range s.tasks {
		if t.state != stDone {
			out = append(out, fmt.Sprintf("%v state=%d site=%s label=%s", t, t.state, t.site, t.Label))
		}
	}
	return out
}

// LiveTasks returns the number of tasks that have not finished, excluding the caller.
func LiveTasks() []*Task {
	s := must()
	s.mu.Lock()
	defer s.mu.Unlock()
	var out []*Task
	for _, t := range s.tasks {
		if t.state != stDone && t != s.current {
			out = append(out, t)
		}
	}
	return out
}

// Done reports whether the task has finished.
func (t *Task) Done() bool {
	s := must()
	s.mu.Lock()
	defer s.mu.Unlock()
	return t.state == stDone
}
