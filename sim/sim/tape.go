// Package sim is the deterministic simulator core: a choice tape, a token-passing task scheduler
// that runs inside a testing/synctest bubble, and the generic wrappers that the source rewriter
// inserts around channel operations, select, go statements and friends.
package sim

import (
	"fmt"
)

// Choice is one recorded draw of the tape.
type Choice struct {
	Kind string `json:"k"`
	N    int    `json:"n"`
	V    int    `json:"v"`
}

// Tape is the single source of nondeterminism of a run. In generation mode values come from a
// PRNG; in replay mode from a recorded vector, leniently (out-of-range values are reduced modulo n
// and an exhausted tape yields 0), which is what makes shrinking by deletion possible.
type Tape struct {
	state  uint64 // splitmix64 state (generation mode)
	replay []int
	gen    bool
	pos    int
	Rec    []Choice
	keep   bool // record kinds (for replay files); values are always recorded
}

// splitmix64
func (t *Tape) next() uint64 {
	t.state += 0x9e3779b97f4a7c15
	z := t.state
	z = (z ^ (z >> 30)) * 0xbf58476d1ce4e5b9
	z = (z ^ (z >> 27)) * 0x94d049bb133111eb
	return z ^ (z >> 31)
}

// Mix hashes several integers into one seed.
func Mix(parts ...uint64) uint64 {
	h := uint64(0x243f6a8885a308d3)
	for _, p := range parts {
		h ^= p + 0x9e3779b97f4a7c15 + (h << 6) + (h >> 2)
		h *= 0xff51afd7ed558ccd
		h ^= h >> 33
	}
	return h
}

// MixString hashes a string into a uint64 (FNV-1a).
func MixString(s string) uint64 {
	h := uint64(14695981039346656037)
	for i := 0; i < len(s); i++ {
		h ^= uint64(s[i])
		h *= 1099511628211
	}
	return h
}

// NewGenTape returns a generating tape.
func NewGenTape(seed uint64) *Tape {
	return &Tape{state: seed, gen: true, keep: true}
}

// NewReplayTape returns a tape replaying vals leniently.
func NewReplayTape(vals []int) *Tape {
	return &Tape{replay: vals, keep: true}
}

// Choose returns a value in [0,n). n<=1 yields 0 without consuming anything.
func (t *Tape) Choose(n int, kind string) int {
	if n <= 1 {
		return 0
	}
	var v int
	if t.gen {
		v = int(t.next() % uint64(n))
	} else if t.pos < len(t.replay) {
		v = t.replay[t.pos]
		if v < 0 {
			v = -v
		}
		v %= n
	}
	t.pos++
	t.Rec = append(t.Rec, Choice{Kind: kind, N: n, V: v})
	return v
}

// Bool draws a boolean that is true with probability num/den; 0 (false) is the simple value.
func (t *Tape) Bool(num, den int, kind string) bool {
	if num <= 0 {
		return false
	}
	return t.Choose(den, kind) >= den-num
}

// Values returns the recorded values.
func (t *Tape) Values() []int {
	out := make([]int, len(t.Rec))
	for i, c := range t.Rec {
		out[i] = c.V
	}
	return out
}

func (t *Tape) String() string { return fmt.Sprintf("tape(pos=%d)", t.pos) }
