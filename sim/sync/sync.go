// Package sync is the simulator's drop-in for the standard sync package. Mutex, RWMutex, Cond,
// WaitGroup and Once are simulator-level implementations (a real sync.Mutex is not durably
// blocking inside a synctest bubble, and Go promises no wake-up order, so the scheduler chooses).
// Because only the token holder ever executes, their state needs no real locking.
package sync

import (
	stdsync "sync"

	"verifsim/sim"
)

type Locker = stdsync.Locker

// Map stands in for sync.Map. The real one iterates in the randomised order of a Go map, which no
// seed controls: a library whose Range misbehaves would then misbehave differently from run to run
// and its violation would not replay. This one keeps its entries in insertion order and starts
// Range at a tape-chosen entry; every method is a schedule point. As in the real one, Range visits
// each key at most once, skips entries deleted before it reaches them, shows the value current at
// the moment of the visit, and does not visit keys stored after it began. Conformance with
// sync.Map on random operation sequences is tested in sim/conform.
type Map struct {
	m    map[any]*mapEntry
	keys []any // insertion order, with tombstones (entry.deleted)
}

type mapEntry struct {
	v       any
	deleted bool
}

func (m *Map) get(key any) *mapEntry {
	if m.m == nil {
		return nil
	}
	return m.m[key]
}

func (m *Map) put(key, value any) {
	if m.m == nil {
		m.m = map[any]*mapEntry{}
	}
	if e := m.m[key]; e != nil {
		e.v = value
		return
	}
	m.m[key] = &mapEntry{v: value}
	m.keys = append(m.keys, key)
	if len(m.keys) > 64 && len(m.keys) > 4*len(m.m) {
		live := m.keys[:0:0]
		for _, k := range m.keys {
			if m.m[k] != nil {
				live = append(live, k)
			}
		}
		m.keys = live
	}
}

func (m *Map) del(key any) {
	if e := m.get(key); e != nil {
		e.deleted = true
		delete(m.m, key)
	}
}

func (m *Map) Load(key any) (value any, ok bool) {
	sim.Pre("Map.Load")
	if e := m.get(key); e != nil {
		return e.v, true
	}
	return nil, false
}

func (m *Map) Store(key, value any) {
	sim.Pre("Map.Store")
	m.put(key, value)
	sim.After("Map.Store")
}

func (m *Map) Clear() {
	sim.Pre("Map.Clear")
	for _, e := range m.m {
		e.deleted = true
	}
	m.m, m.keys = nil, nil
	sim.After("Map.Clear")
}

func (m *Map) LoadOrStore(key, value any) (actual any, loaded bool) {
	sim.Pre("Map.LoadOrStore")
	defer sim.After("Map.LoadOrStore")
	if e := m.get(key); e != nil {
		return e.v, true
	}
	m.put(key, value)
	return value, false
}

func (m *Map) LoadAndDelete(key any) (value any, loaded bool) {
	sim.Pre("Map.LoadAndDelete")
	defer sim.After("Map.LoadAndDelete")
	if e := m.get(key); e != nil {
		v := e.v
		m.del(key)
		return v, true
	}
	return nil, false
}

func (m *Map) Delete(key any) { m.LoadAndDelete(key) }

func (m *Map) Swap(key, value any) (previous any, loaded bool) {
	sim.Pre("Map.Swap")
	defer sim.After("Map.Swap")
	if e := m.get(key); e != nil {
		previous, e.v = e.v, value
		return previous, true
	}
	m.put(key, value)
	return nil, false
}

func (m *Map) CompareAndSwap(key, old, new any) (swapped bool) {
	sim.Pre("Map.CompareAndSwap")
	defer sim.After("Map.CompareAndSwap")
	if e := m.get(key); e != nil && e.v == old { // (panics for incomparable values, like the real one)
		e.v = new
		return true
	}
	return false
}

func (m *Map) CompareAndDelete(key, old any) (deleted bool) {
	sim.Pre("Map.CompareAndDelete")
	defer sim.After("Map.CompareAndDelete")
	if e := m.get(key); e != nil && e.v == old {
		m.del(key)
		return true
	}
	return false
}

func (m *Map) Range(f func(key, value any) bool) {
	sim.Pre("Map.Range")
	var keys []any
	var entries []*mapEntry
	seen := map[*mapEntry]bool{}
	for _, k := range m.keys { // (a key deleted and stored again appears twice in m.keys)
		if e := m.get(k); e != nil && !seen[e] {
			seen[e] = true
			keys = append(keys, k)
			entries = append(entries, e)
		}
	}
	if len(keys) == 0 {
		return
	}
	start := sim.Choose(len(keys), "map-range-start")
	for i := range keys {
		j := (start + i) % len(keys)
		e := entries[j]
		if e == nil || e.deleted {
			continue
		}
		if !f(keys[j], e.v) {
			return
		}
		sim.Yield("Map.Range(next)")
	}
}

// Pool stands in for sync.Pool. It belongs to one simulated run: objects put in it during an
// earlier run (another bubble) are forgotten, because timers and channels must not cross bubbles.
// As with the real pool, Get may or may not find a previously Put object (the tape decides).
type Pool struct {
	New   func() any
	items []any
	epoch uint64
}

func (p *Pool) sync() {
	if e := sim.Epoch(); p.epoch != e {
		p.epoch = e
		p.items = nil
	}
}

func (p *Pool) Get() any {
	sim.Pre("Pool.Get")
	p.sync()
	if n := len(p.items); n > 0 && sim.Choose(4, "pool-drop") != 3 {
		x := p.items[n-1]
		p.items = p.items[:n-1]
		return x
	}
	p.items = nil
	if p.New != nil {
		return p.New()
	}
	return nil
}

func (p *Pool) Put(x any) {
	sim.Pre("Pool.Put")
	p.sync()
	if x == nil {
		return
	}
	p.items = append(p.items, x)
}

// Mutex: waiters are all made ready on Unlock and re-contend, so the scheduler (the tape) decides
// who gets the lock.
type Mutex struct {
	locked  bool
	owner   *sim.Task
	waiters []*sim.Task
}

func (m *Mutex) Lock() {
	t := sim.Pre("Mutex.Lock")
	for m.locked {
		m.waiters = append(m.waiters, t)
		sim.ParkSelf("Mutex.Lock(wait)")
	}
	m.locked = true
	m.owner = t
}

func (m *Mutex) TryLock() bool {
	t := sim.Pre("Mutex.TryLock")
	if m.locked {
		return false
	}
	m.locked = true
	m.owner = t
	return true
}

func (m *Mutex) Unlock() {
	sim.Pre("Mutex.Unlock")
	if !m.locked {
		panic("sync: unlock of unlocked mutex")
	}
	m.locked = false
	m.owner = nil
	ws := m.waiters
	m.waiters = nil
	for _, w := range ws {
		sim.MakeReady(w)
	}
	sim.After("Mutex.Unlock")
}

// Owner returns the task holding the mutex (nil if unlocked); for harness oracles.
func (m *Mutex) Owner() *sim.Task { return m.owner }

// Locked reports whether the mutex is held; for harness oracles.
func (m *Mutex) Locked() bool { return m.locked }

// RWMutex with Go's writer preference: once a writer waits, new readers queue behind it.
type RWMutex struct {
	writer         bool
	readers        int
	writersWaiting int
	waiters        []*sim.Task
}

func (m *RWMutex) wakeAll() {
	ws := m.waiters
	m.waiters = nil
	for _, w := range ws {
		sim.MakeReady(w)
	}
}

func (m *RWMutex) Lock() {
	t := sim.Pre("RWMutex.Lock")
	m.writersWaiting++
	for m.writer || m.readers > 0 {
		m.waiters = append(m.waiters, t)
		sim.ParkSelf("RWMutex.Lock(wait)")
	}
	m.writersWaiting--
	m.writer = true
}

func (m *RWMutex) TryLock() bool {
	sim.Pre("RWMutex.TryLock")
	if m.writer || m.readers > 0 {
		return false
	}
	m.writer = true
	return true
}

func (m *RWMutex) TryRLock() bool {
	sim.Pre("RWMutex.TryRLock")
	if m.writer || m.writersWaiting > 0 {
		return false
	}
	m.readers++
	return true
}

func (m *RWMutex) Unlock() {
	sim.Pre("RWMutex.Unlock")
	if !m.writer {
		panic("sync: Unlock of unlocked RWMutex")
	}
	m.writer = false
	m.wakeAll()
	sim.After("RWMutex.Unlock")
}

func (m *RWMutex) RLock() {
	t := sim.Pre("RWMutex.RLock")
	for m.writer || m.writersWaiting > 0 {
		m.waiters = append(m.waiters, t)
		sim.ParkSelf("RWMutex.RLock(wait)")
	}
	m.readers++
}

func (m *RWMutex) RUnlock() {
	sim.Pre("RWMutex.RUnlock")
	if m.readers <= 0 {
		panic("sync: RUnlock of unlocked RWMutex")
	}
	m.readers--
	if m.readers == 0 {
		m.wakeAll()
	}
	sim.After("RWMutex.RUnlock")
}

func (m *RWMutex) RLocker() Locker { return (*rlocker)(m) }

type rlocker RWMutex

func (r *rlocker) Lock()   { (*RWMutex)(r).RLock() }
func (r *rlocker) Unlock() { (*RWMutex)(r).RUnlock() }

// Cond: Signal wakes a tape-chosen waiter (Go promises none in particular).
type Cond struct {
	L       Locker
	waiters []*sim.Task
}

func NewCond(l Locker) *Cond { return &Cond{L: l} }

func (c *Cond) Wait() {
	t := sim.Self()
	c.waiters = append(c.waiters, t)
	c.L.Unlock()
	// The Unlock above may have yielded; a Signal in between has already made us ready, in which
	// case ParkSelf must not lose it: we are only parked if still in the waiter list.
	for c.has(t) {
		sim.ParkSelf("Cond.Wait")
	}
	c.L.Lock()
}

func (c *Cond) has(t *sim.Task) bool {
	for _, w := range c.waiters {
		if w == t {
			return true
		}
	}
	return false
}

func (c *Cond) Signal() {
	sim.Pre("Cond.Signal")
	if n := len(c.waiters); n > 0 {
		i := sim.Choose(n, "cond-waiter")
		w := c.waiters[i]
		c.waiters = append(c.waiters[:i:i], c.waiters[i+1:]...)
		sim.MakeReady(w)
	}
	sim.After("Cond.Signal")
}

func (c *Cond) Broadcast() {
	sim.Pre("Cond.Broadcast")
	ws := c.waiters
	c.waiters = nil
	for _, w := range ws {
		sim.MakeReady(w)
	}
	sim.After("Cond.Broadcast")
}

// WaitGroup.
type WaitGroup struct {
	n       int
	waiters []*sim.Task
}

func (wg *WaitGroup) Add(delta int) {
	sim.Pre("WaitGroup.Add")
	wg.n += delta
	if wg.n < 0 {
		panic("sync: negative WaitGroup counter")
	}
	if wg.n == 0 {
		ws := wg.waiters
		wg.waiters = nil
		for _, w := range ws {
			sim.MakeReady(w)
		}
	}
	sim.After("WaitGroup.Add")
}

func (wg *WaitGroup) Done() { wg.Add(-1) }

func (wg *WaitGroup) Wait() {
	t := sim.Pre("WaitGroup.Wait")
	for wg.n > 0 {
		wg.waiters = append(wg.waiters, t)
		sim.ParkSelf("WaitGroup.Wait(wait)")
	}
}

func (wg *WaitGroup) Go(f func()) {
	wg.Add(1)
	sim.Go("WaitGroup.Go", func() {
		defer wg.Done()
		f()
	})
}

// Count returns the counter; for harness oracles.
func (wg *WaitGroup) Count() int { return wg.n }

// Once.
type Once struct {
	done    bool
	running bool
	waiters []*sim.Task
}

func (o *Once) Do(f func()) {
	t := sim.Pre("Once.Do")
	if o.done {
		return
	}
	for o.running {
		o.waiters = append(o.waiters, t)
		sim.ParkSelf("Once.Do(wait)")
	}
	if o.done {
		return
	}
	o.running = true
	defer func() {
		o.running = false
		o.done = true
		ws := o.waiters
		o.waiters = nil
		for _, w := range ws {
			sim.MakeReady(w)
		}
	}()
	f()
}

// OnceFunc, OnceValue, OnceValues: like the real ones, if f panics every call panics with the same
// value (and f still runs only once).
func OnceFunc(f func()) func() {
	var o Once
	var p any
	valid := false
	return func() {
		o.Do(func() {
			defer func() {
				if !valid {
					p = recover()
				}
			}()
			f()
			valid = true
		})
		if !valid {
			panic(p)
		}
	}
}

func OnceValue[T any](f func() T) func() T {
	var o Once
	var v T
	var p any
	valid := false
	return func() T {
		o.Do(func() {
			defer func() {
				if !valid {
					p = recover()
				}
			}()
			v = f()
			valid = true
		})
		if !valid {
			panic(p)
		}
		return v
	}
}

func OnceValues[T1, T2 any](f func() (T1, T2)) func() (T1, T2) {
	var o Once
	var v1 T1
	var v2 T2
	var p any
	valid := false
	return func() (T1, T2) {
		o.Do(func() {
			defer func() {
				if !valid {
					p = recover()
				}
			}()
			v1, v2 = f()
			valid = true
		})
		if !valid {
			panic(p)
		}
		return v1, v2
	}
}
