// Package time is the simulator's drop-in for time. The clock itself is synctest's fake clock;
// this package makes timer operations schedule points, turns AfterFunc callbacks into scheduler
// tasks, and lets the simulator arm timers late (Go only promises "at least d").
package time

import (
	stdtime "time"

	"verifsim/sim"
)

type (
	Duration = stdtime.Duration
	Time     = stdtime.Time
	Month    = stdtime.Month
	Weekday  = stdtime.Weekday
	Location = stdtime.Location
)

const (
	Nanosecond  = stdtime.Nanosecond
	Microsecond = stdtime.Microsecond
	Millisecond = stdtime.Millisecond
	Second      = stdtime.Second
	Minute      = stdtime.Minute
	Hour        = stdtime.Hour
)

var (
	UTC   = stdtime.UTC
	Local = stdtime.Local
)

const (
	Layout      = stdtime.Layout
	ANSIC       = stdtime.ANSIC
	UnixDate    = stdtime.UnixDate
	RubyDate    = stdtime.RubyDate
	RFC822      = stdtime.RFC822
	RFC822Z     = stdtime.RFC822Z
	RFC850      = stdtime.RFC850
	RFC1123     = stdtime.RFC1123
	RFC1123Z    = stdtime.RFC1123Z
	RFC3339     = stdtime.RFC3339
	RFC3339Nano = stdtime.RFC3339Nano
	Kitchen     = stdtime.Kitchen
	Stamp       = stdtime.Stamp
	StampMilli  = stdtime.StampMilli
	StampMicro  = stdtime.StampMicro
	StampNano   = stdtime.StampNano
	DateTime    = stdtime.DateTime
	DateOnly    = stdtime.DateOnly
	TimeOnly    = stdtime.TimeOnly
)

const (
	January   = stdtime.January
	February  = stdtime.February
	March     = stdtime.March
	April     = stdtime.April
	May       = stdtime.May
	June      = stdtime.June
	July      = stdtime.July
	August    = stdtime.August
	September = stdtime.September
	October   = stdtime.October
	November  = stdtime.November
	December  = stdtime.December
)

const (
	Sunday    = stdtime.Sunday
	Monday    = stdtime.Monday
	Tuesday   = stdtime.Tuesday
	Wednesday = stdtime.Wednesday
	Thursday  = stdtime.Thursday
	Friday    = stdtime.Friday
	Saturday  = stdtime.Saturday
)

func Now() Time             { sim.ClockTick(); return stdtime.Now() }
func Since(t Time) Duration { sim.ClockTick(); return stdtime.Since(t) }
func Until(t Time) Duration { sim.ClockTick(); return stdtime.Until(t) }
func Unix(sec int64, ns int64) Time  { return stdtime.Unix(sec, ns) }
func ParseDuration(s string) (Duration, error) { return stdtime.ParseDuration(s) }

// pure functions of their arguments: the real ones
func Date(year int, month Month, day, hour, min, sec, nsec int, loc *Location) Time {
	return stdtime.Date(year, month, day, hour, min, sec, nsec, loc)
}
func Parse(layout, value string) (Time, error) { return stdtime.Parse(layout, value) }
func ParseInLocation(layout, value string, loc *Location) (Time, error) {
	return stdtime.ParseInLocation(layout, value, loc)
}
func FixedZone(name string, offset int) *Location   { return stdtime.FixedZone(name, offset) }
func LoadLocation(name string) (*Location, error)  { return stdtime.LoadLocation(name) }
func LoadLocationFromTZData(name string, data []byte) (*Location, error) {
	return stdtime.LoadLocationFromTZData(name, data)
}
func UnixMicro(usec int64) Time { return stdtime.UnixMicro(usec) }
func UnixMilli(msec int64) Time { return stdtime.UnixMilli(msec) }

type ParseError = stdtime.ParseError

// Timer mirrors time.Timer. Two channel semantics are simulated, chosen per run:
//   - synchronous (Go >= 1.23, what synctest's runtime gives): the real timer channel is used;
//     Stop/Reset leave no stale value behind and Stop reports true unless the value was received;
//   - asynchronous (GODEBUG asynctimerchan=1, what a main module with go < 1.23 gets): C is a
//     one-slot buffered channel filled by a callback when the timer fires; Stop reports false once
//     the timer has fired even if nobody received the value, and neither Stop nor Reset drains it.
type Timer struct {
	C     <-chan Time
	t     *stdtime.Timer
	async bool
	c     chan Time
}

// late adds the injected lateness to a timer's duration without overflowing (a duration near the top
// of the range must stay there, not wrap to "already due").
func late(d Duration) Duration {
	l := sim.Lateness()
	if l > 0 && d > Duration(1<<63-1)-l {
		return Duration(1<<63 - 1)
	}
	return d + l
}

func NewTimer(d Duration) *Timer {
	sim.Pre("time.NewTimer")
	if sim.AsyncTimerChan() {
		c := make(chan Time, 1)
		rt := stdtime.AfterFunc(late(d), func() {
			select {
			case c <- stdtime.Now():
			default:
			}
		})
		sim.TrackTimer(rt)
		return &Timer{C: c, c: c, t: rt, async: true}
	}
	rt := stdtime.NewTimer(late(d))
	sim.TrackTimer(rt)
	return &Timer{C: rt.C, t: rt}
}

func AfterFunc(d Duration, f func()) *Timer {
	sim.Pre("time.AfterFunc")
	key := sim.TimerKey()
	n := 0
	rt := stdtime.AfterFunc(late(d), func() {
		n++
		sim.RunTimerTask("time.AfterFunc", key+n%1000, f)
	})
	sim.TrackTimer(rt)
	return &Timer{t: rt}
}

func (t *Timer) Stop() bool {
	if sim.Tearing() {
		return t.t.Stop()
	}
	sim.Pre("Timer.Stop")
	r := t.t.Stop()
	sim.After("Timer.Stop")
	return r
}

func (t *Timer) Reset(d Duration) bool {
	sim.Pre("Timer.Reset")
	r := t.t.Reset(late(d))
	sim.After("Timer.Reset")
	return r
}

func After(d Duration) <-chan Time { return NewTimer(d).C }

func Sleep(d Duration) { sim.Sleep(d, "time.Sleep") }

// Ticker mirrors time.Ticker.
type Ticker struct {
	C <-chan Time
	t *stdtime.Ticker
}

func NewTicker(d Duration) *Ticker {
	sim.Pre("time.NewTicker")
	rt := stdtime.NewTicker(d)
	return &Ticker{C: rt.C, t: rt}
}
func Tick(d Duration) <-chan Time {
	if d <= 0 {
		return nil
	}
	return NewTicker(d).C
}
func (t *Ticker) Stop()            { t.t.Stop() }
func (t *Ticker) Reset(d Duration) { t.t.Reset(d) }
