#!/usr/bin/env bash
# try_benign.sh <dir with patch.diff> <property ids...>
# Specificity test: applies a behaviour-preserving refactoring to a scratch worktree of /repo and runs
# the named quick checks against it. Every one of them must exit 0 (no alarm, no tooling trouble);
# anything else is printed for investigation. Leaves nothing behind.
set -u
ROOT="$(cd "$(dirname "${BASH_SOURCE[0]}")" && pwd)"
D="$(cd "$1" && pwd)"; shift
W=$(mktemp -d /tmp/benigntry.XXXXXX)
cleanup() { git -C /repo worktree remove --force "$W/repo" >/dev/null 2>&1; rm -rf "$W"; git -C /repo worktree prune; }
trap cleanup EXIT
git -C /repo worktree add -q --detach "$W/repo" HEAD || exit 2
cd "$W/repo"
git apply "$D/patch.diff" || { echo "patch does not apply"; exit 2; }
go build ./... >/dev/null 2>&1 || { echo "does not build"; exit 2; }
bad=0
for p in "$@"; do
  cp "$ROOT/evidence/$p.json" "$W/evidence.$p.json" 2>/dev/null
  out=$(cd "$ROOT" && VERIF_REPLAY_DIR="$W/replays" VERIF_REPO="$W/repo" ./verif.sh check "$p" --tier quick --seconds "${SECS:-12}" 2>&1); code=$?
  cp "$W/evidence.$p.json" "$ROOT/evidence/$p.json" 2>/dev/null
  if [ $code -eq 0 ]; then echo "quiet  $p"; else bad=1; echo "ALARM  $p exit=$code"; echo "$out" | grep -vE "^WARNING|^KNOWN-FINDING" | grep -E "VIOLATION|signature:|^  |verif.sh:|rewrite:|\.go:" | head -8 | cut -c1-300; fi
done
exit $bad
