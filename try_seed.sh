#!/usr/bin/env bash
# try_seed.sh <dir with patch.diff, demo test, meta.json> [property ids to check...]
# Confirms a seeded change in a scratch worktree (suite still passes, demo fails with / passes
# without the change) and runs the named quick checks against it. Leaves nothing behind.
set -u
ROOT="$(cd "$(dirname "${BASH_SOURCE[0]}")" && pwd)"
D="$(cd "$1" && pwd)"; shift
W=$(mktemp -d /tmp/seedtry.XXXXXX)
cleanup() { git -C /repo worktree remove --force "$W/repo" >/dev/null 2>&1; rm -rf "$W"; git -C /repo worktree prune; }
trap cleanup EXIT
git -C /repo worktree add -q --detach "$W/repo" HEAD || exit 2
cd "$W/repo"
pkg=$(python3 -c "import json,sys;print(json.load(open('$D/meta.json')).get('package_dir_of_demo','.'))")
# the property whose check must report it: breaks_property ("C10 (seeded as C08)") if given, else property
prop=$(python3 -c "import json,sys;m=json.load(open('$D/meta.json'));print((m.get('breaks_property') or m['property']).split()[0])")
demo=$(ls "$D"/*_test.go 2>/dev/null | head -1)
if [ -z "$demo" ] && ls "$D"/*_test.go.txt >/dev/null 2>&1; then
  # stored seeds keep their demonstration as .txt so that it is not compiled as part of /verif
  src=$(ls "$D"/*_test.go.txt | head -1); demo="$W/$(basename "${src%.txt}")"; cp "$src" "$demo"
fi
raceflag=""; if grep -q -- "-race" "$D/meta.json"; then raceflag="-race"; fi
# run only the demonstration's own tests (the package may contain wall-clock sensitive tests)
runpat=$(grep -ho "^func Test[A-Za-z0-9_]*" "$demo" 2>/dev/null | sed 's/^func //' | paste -sd'|')
[ -n "$runpat" ] && raceflag="$raceflag -run ^($runpat)\$"
[ $# -gt 0 ] || set -- "$prop"
echo "== seed $D (property $prop, demo $(basename "$demo") in $pkg)"
# TRY_SEED_FAST=1: only apply the change and run the checks (used by the sensitivity self-test to
# re-confirm stored seeds, whose demonstration and suite result were confirmed when they were kept)
if [ -n "${TRY_SEED_FAST:-}" ]; then demo=""; fi
if [ -n "$demo" ]; then
  cp "$demo" "$pkg/"
  if go test -vet=off -count=1 $raceflag "./$pkg/" >"$W/demo_clean.log" 2>&1; then echo "demo on clean tree: PASS"; else echo "demo on clean tree: FAIL (bad demo)"; tail -5 "$W/demo_clean.log"; fi
fi
if ! git apply "$D/patch.diff"; then echo "patch does not apply"; exit 2; fi
if [ -n "$demo" ]; then
  if go test -vet=off -count=1 $raceflag "./$pkg/" >"$W/demo_mut.log" 2>&1; then echo "demo with change: PASS (does not demonstrate)"; else echo "demo with change: FAIL (as intended)"; fi
  rm -f "$pkg/$(basename "$demo")"
fi
if [ -n "${TRY_SEED_FAST:-}" ]; then
  go build ./... >"$W/build.log" 2>&1 || { echo "does not build"; exit 2; }
elif go build ./... >"$W/build.log" 2>&1 && go test -vet=off -count=1 ./... >"$W/suite.log" 2>&1; then echo "existing suite with change: PASS"; else
  # xtime's TestJitterTicker is wall-clock sensitive: re-run failing packages alone before judging
  bad=$(grep -E "^FAIL\s" "$W/suite.log" | awk '{print $2}' | sort -u)
  still=""
  rt=""; command -v chrt >/dev/null 2>&1 && rt="chrt -f 50"
  for pk in $bad; do ok=0; for i in 1 2 3 4 5 6 7 8; do if $rt go test -vet=off -count=1 "$pk" >/dev/null 2>&1; then ok=1; break; fi; done; [ $ok -eq 1 ] || still="$still $pk"; done
  if [ -z "$still" ] && [ -n "$bad" ]; then echo "existing suite with change: PASS (after re-running wall-clock sensitive $bad alone)"; else echo "existing suite with change: FAIL:$still"; grep -E "^(---|FAIL)" "$W/suite.log" | head -5; fi
fi
for p in "$@"; do
  cp "$ROOT/evidence/$p.json" "$W/evidence.$p.json" 2>/dev/null
  # a seed marked "thorough_only" needs more than the quick tier reaches (e.g. a four-level tree):
  # it is replayed against the thorough tier for a minute and a half
  tier="--tier quick"; if grep -q '"thorough_only"' "$D/meta.json"; then tier="--tier thorough --seconds 90"; fi
  out=$(cd "$ROOT" && VERIF_REPLAY_DIR="$W/replays" VERIF_REPO="$W/repo" ./verif.sh check "$p" $tier 2>&1); code=$?
  cp "$W/evidence.$p.json" "$ROOT/evidence/$p.json" 2>/dev/null
  echo "check $p: exit=$code"
  echo "$out" | grep -E "^VIOLATION|signature:|KNOWN-FINDING" | cut -c1-220 | head -6
  if [ $code -eq 2 ]; then echo "$out" | tail -5; fi
done
