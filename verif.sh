#!/usr/bin/env bash
# Entry point of the verification machinery.
#   verif.sh setup
#   verif.sh check <ID> [--tier quick|thorough] [--seconds N] [--workers N]
#   verif.sh replay <path>
#   verif.sh build            (rebuild the harness from /repo's working tree if needed; prints the binary path)
#   verif.sh selftest determinism [worlds...] | sensitivity [seeds...] | conformance
#   verif.sh audit race
#   verif.sh coverage [seconds]   (statement coverage of the library under the worlds; non-deciding)
# Exit codes: 0 held / 1 VIOLATION / 2 tooling trouble (never a violation).
set -u
ROOT="$(cd "$(dirname "${BASH_SOURCE[0]}")" && pwd)"
REPO="${VERIF_REPO:-/repo}"
export GOFLAGS=-mod=mod GOPROXY=off GOSUMDB=off GOTOOLCHAIN=local GONOSUMCHECK=1 GONOSUMDB='*' GOFLAGS="-mod=mod"
export PATH="/opt/veriftools/go1.26.8/bin:$PATH"
GO=/opt/veriftools/go1.26.8/bin/go
CACHE="$ROOT/.cache"
mkdir -p "$CACHE/bin" "$ROOT/evidence" "$ROOT/replays"

die2() { echo "verif.sh: $*" >&2; exit 2; }

[ -x "$GO" ] || die2 "go1.26.8 not found at $GO"

src_hash() {
  (
    cd "$REPO" && find . -name '*.go' -not -name '*_test.go' -not -path './.git/*' -type f -print0 | sort -z | xargs -0 sha256sum
    cat "$REPO/go.mod"
    cd "$ROOT" && find sim worlds rewrite -type f \( -name '*.go' -o -name 'go.mod' -o -name '*.tmpl' \) -print0 | sort -z | xargs -0 sha256sum
    echo "race=$1"
  ) | sha256sum | cut -c1-24
}

build_rewriter() {
  local h
  h=$(cd "$ROOT/rewrite" && cat main.go go.mod | sha256sum | cut -c1-16)
  if [ ! -x "$CACHE/bin/rewrite-$h" ]; then
    (cd "$ROOT/rewrite" && "$GO" build -o "$CACHE/bin/rewrite-$h" .) >&2 || die2 "cannot build the rewriter"
  fi
  echo "$CACHE/bin/rewrite-$h"
}

# build [race]: prints the path of the harness binary for the current /repo working tree
build() {
  local race="${1:-}"
  local h bin
  h=$(src_hash "$race")
  bin="$CACHE/harness-$h.test"
  if [ "$race" = cover ]; then bin="$CACHE/harness-cover-$h.test"; rm -f "$bin"; fi
  if [ -x "$bin" ]; then touch "$bin" 2>/dev/null; echo "$bin"; return 0; fi
  local rewriter
  rewriter=$(build_rewriter) || exit 2
  local S
  S=$(mktemp -d /tmp/verif-build.XXXXXX) || die2 "mktemp failed"
  if [ "$race" = cover ]; then echo "$S" > "$CACHE/cover-src-dir"; else trap 'rm -rf "$S"' RETURN; fi
  mkdir -p "$S/juniper"
  (cd "$REPO" && find . -type f \( -name '*.go' -o -name 'go.mod' -o -name 'go.sum' \) -not -name '*_test.go' -not -path './.git/*' -print0 | rsync -a --from0 --files-from=- ./ "$S/juniper/") || die2 "copy of $REPO failed"
  local egsrc
  egsrc="$($GO env GOMODCACHE)/golang.org/x/sync@$(awk '$1=="golang.org/x/sync"{print $2}' "$REPO/go.mod")/errgroup/errgroup.go"
  [ -f "$egsrc" ] || die2 "errgroup source not found: $egsrc"
  mkdir -p "$S/juniper/internal/verif_errgroup"
  cp "$egsrc" "$S/juniper/internal/verif_errgroup/errgroup.go" && chmod u+w "$S/juniper/internal/verif_errgroup/errgroup.go"
  printf '\nrequire verifsim v0.0.0\n\nreplace verifsim => %s/sim\n' "$ROOT" >> "$S/juniper/go.mod"
  if [ "$race" != race ]; then
    "$rewriter" -dir "$S/juniper" -errgroup github.com/bradenaw/juniper/internal/verif_errgroup >&2 || die2 "the source rewriter failed on $REPO's working tree (tooling trouble, not a violation)"
  fi
  sed -e "s#@SCRATCH@#$S#g" -e "s#@ROOT@#$ROOT#g" "$ROOT/worlds/go.mod.tmpl" > "$S/worlds.mod"
  cat "$REPO/go.sum" "$ROOT/worlds/go.sum.extra" > "$S/worlds.sum" 2>/dev/null
  local flags=(-tags verif -vet=off)
  local pkg=.
  if [ "$race" = race ]; then flags+=(-race); pkg=./race; fi
  if [ "$race" = cover ]; then flags+=(-cover -coverpkg=github.com/bradenaw/juniper/...); fi
  (cd "$ROOT/worlds" && "$GO" test -c -modfile="$S/worlds.mod" "${flags[@]}" -o "$bin.tmp" "$pkg") >&2 || die2 "the harness does not build against $REPO's working tree (tooling trouble, not a violation)"
  mv "$bin.tmp" "$bin"
  # keep the cache small: drop binaries that have not been built or used for three hours (never a
  # recent one: several checks may be running from different builds at the same time)
  find "$CACHE" -maxdepth 1 -name 'harness-*.test' -mmin +180 -delete 2>/dev/null
  echo "$bin"
}

cmd="${1:-}"; shift || true
case "$cmd" in
  setup)
    build_rewriter >/dev/null || exit 2
    bin=$(build) || exit 2
    rbin=$(build race) || exit 2
    echo "setup ok: $bin $rbin"
    ;;
  build)
    build "${1:-}" || exit 2
    ;;
  check)
    id="${1:-}"; shift || true
    [ -n "$id" ] || die2 "usage: verif.sh check <ID> [--tier quick|thorough]"
    tier="${VERIF_TIER:-quick}"; seconds=""; workers=""; maxruns=0
    while [ $# -gt 0 ]; do
      case "$1" in
        --tier) tier="$2"; shift 2;;
        --seconds) seconds="$2"; shift 2;;
        --workers) workers="$2"; shift 2;;
        --maxruns) maxruns="$2"; shift 2;;
        *) die2 "unknown option $1";;
      esac
    done
    case "$tier" in
      quick) : "${seconds:=20}"; : "${workers:=8}";;
      thorough) : "${seconds:=600}"; : "${workers:=16}";;
      *) die2 "unknown tier $tier";;
    esac
    seed="${VERIF_SEED:-1}"
    level=$(python3 - "$ROOT/MANIFEST.json" "$id" <<'EOF'
import json,sys
try:
    m=json.load(open(sys.argv[1]))
    for c in m["checks"]:
        if c["property_id"]==sys.argv[2]:
            print(c["level_claimed"]["category"]); break
    else: print("exploration")
except Exception: print("exploration")
EOF
)
    bin=$(build) || exit 2
    if [ -x "$ROOT/checks/$id.pre" ]; then "$ROOT/checks/$id.pre" || exit $?; fi
    "$bin" -test.run='^TestHarness$' -test.timeout=0 -mode=coord -prop="$id" -tier="$tier" -seed="$seed" -workers="$workers" -seconds="$seconds" -maxruns="$maxruns" -root="$ROOT" -level="$level"
    code=$?
    if [ "$id" = "C01" ]; then
      # the race-freedom clause: goroutines released together under the race detector (not serialised)
      rbin=$(build race) || exit 2
      rsec=$(python3 -c "print(max(6, $seconds/3))")
      rm -f "$CACHE/extra-C01.json"
      "$rbin" -test.run='^TestRace$' -test.timeout=0 -mode=coord -seed="$seed" -seconds="$rsec" -workers="$workers" -root="$ROOT" -tier="$tier"
      rcode=$?
      if [ -f "$CACHE/extra-C01.json" ] && [ -f "$ROOT/evidence/C01.json" ]; then
        python3 - "$ROOT/evidence/C01.json" "$CACHE/extra-C01.json" "$rcode" <<'PYEOF'
import json,sys
ev=json.load(open(sys.argv[1])); ex=json.load(open(sys.argv[2]))
ev["coverage"]["race_clause"]=ex
ev["coverage"]["evaluations"]+=ex.get("runs",0)
if sys.argv[3]=="1": ev["violations"]=ev.get("violations",0)+1
json.dump(ev,open(sys.argv[1],"w"),indent=1)
PYEOF
      fi
      if [ $code -eq 1 ] || [ $rcode -eq 1 ]; then code=1; elif [ $rcode -ne 0 ]; then code=$rcode; fi
    fi
    exit $code
    ;;
  replay)
    [ -f "${1:-}" ] || die2 "usage: verif.sh replay <path>"
    if grep -q '"world": "treerace"' "$1"; then
      rbin=$(build race) || exit 2
      "$rbin" -test.run='^TestRace$' -test.timeout=0 -mode=replay -file="$1" -root="$ROOT"
      exit $?
    fi
    bin=$(build) || exit 2
    "$bin" -test.run='^TestHarness$' -test.timeout=0 -mode=replay -file="$1" -root="$ROOT"
    exit $?
    ;;
  selftest)
    case "${1:-}" in
      determinism) shift; exec "$ROOT/selftest_determinism.sh" "$@";;
      sensitivity) shift; exec "$ROOT/selftest_sensitivity.sh" "$@";;
      conformance) (cd "$ROOT/sim" && "$GO" test -count=1 ./conform/) || exit 2;;
      *) die2 "usage: verif.sh selftest determinism|sensitivity|conformance";;
    esac
    ;;
  audit)
    # Non-deciding audit in support of the data-race-freedom assumption (DESIGN.md §2.13): the
    # library's own tests of the concurrent packages under the race detector, unrewritten. It can
    # print race reports but never a VIOLATION line; exit 0 clean / 3 races seen.
    [ "${1:-}" = "race" ] || die2 "usage: verif.sh audit race"
    if (cd "$REPO" && go test -race -vet=off -count=3 ./stream/ ./parallel/ ./xsync/ ./chans/ 2>&1 | grep -v "^ok" | tee /dev/stderr | grep -q "DATA RACE"); then
      echo "audit race: the race detector reported races in the library's own tests (see above)"; exit 3
    fi
    echo "audit race: no race reported by the library's own tests of stream, parallel, xsync, chans (xtime left out: its only test is wall-clock sensitive)"
    ;;
  coverage)
    # Non-deciding reach measurement: statement coverage of the library (the rewritten copy of
    # /repo's working tree) under each world, per property. Usage: verif.sh coverage [seconds per world/property]
    secs="${1:-5}"
    bin=$(build cover) || exit 2
    S=$(cat "$CACHE/cover-src-dir")
    out="$ROOT/reach"; mkdir -p "$out"; rm -f "$out"/*.out
    "$bin" -test.run='^TestHarness$' -mode=list 2>/dev/null | grep '\[' | while read -r w props; do
      for p in $(echo "$props" | tr -d '[]'); do
        rm -rf "$S/covdata"; mkdir -p "$S/covdata"
        GOCOVERDIR="$S/covdata" "$bin" -test.run='^TestHarness$' -test.timeout=0 -mode=worker -world="$w" -prop="$p" -tier=quick -seed=1 -worker=0 -workers=1 -seconds="$secs" -out="$S/$w-$p.json" -root="$ROOT" >/dev/null 2>&1 </dev/null || echo "coverage: worker $w/$p exited $?" >&2
        "$GO" tool covdata textfmt -i="$S/covdata" -o="$out/$w-$p.out" || echo "coverage: no data for $w/$p" >&2
      done
    done
    python3 "$ROOT/coverage_report.py" "$S/juniper" "$out" > "$ROOT/reach/coverage.txt" || exit 2
    rm -rf "$S" "$bin" "$CACHE/cover-src-dir" "$out"/*.out
    cat "$ROOT/reach/coverage.txt"
    ;;
  worker)
    bin=$(build) || exit 2
    "$bin" -test.run='^TestHarness$' -test.timeout=0 -mode=worker -root="$ROOT" "$@"
    exit $?
    ;;
  *)
    die2 "usage: verif.sh setup|check|replay|build"
    ;;
esac
