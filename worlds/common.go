package worlds

import (
	"errors"
	"fmt"

	"verifsim/context"
	"verifsim/sim"
)

// Call is one library call made by a harness party, stamped with global event sequence numbers.
type Call struct {
	Party    string
	Kind     string
	Arg      int
	Inv, Ret uint64 // event sequence numbers of invocation and return (Ret==0: not returned)
	InvAt    int64  // simulated time (ns) at invocation / return
	RetAt    int64
	Returned bool
	Err      error
	Val      int
	OK       bool
	Ctx      *Ctx
	Note     string
}

func (c *Call) String() string {
	s := fmt.Sprintf("%s.%s(%d)", c.Party, c.Kind, c.Arg)
	if c.Returned {
		s += fmt.Sprintf(" -> val=%d ok=%v err=%v [inv#%d ret#%d]", c.Val, c.OK, c.Err, c.Inv, c.Ret)
	} else {
		s += fmt.Sprintf(" (not returned) [inv#%d]", c.Inv)
	}
	return s
}

// Calls is the recorded history of a run.
type Calls struct {
	r   *R
	All []*Call
}

// Begin yields, then records the invocation of a call by the current task.
func (cs *Calls) Begin(party, kind string, arg int, ctx *Ctx) *Call {
	sim.Yield("call:" + kind)
	c := &Call{Party: party, Kind: kind, Arg: arg, Inv: sim.Seq(), InvAt: int64(sim.Now()), Ctx: ctx}
	cs.All = append(cs.All, c)
	sim.Self().Label = fmt.Sprintf("%s.%s(%d)", party, kind, arg)
	cs.r.Logf("invoke  %s.%s(%d) #%d%s", party, kind, arg, c.Inv, ctxNote(ctx))
	return c
}

func ctxNote(ctx *Ctx) string {
	if ctx == nil {
		return ""
	}
	return " ctx=" + ctx.Name
}

// End records the return of a call.
func (cs *Calls) End(c *Call, val int, ok bool, err error) {
	c.Ret = sim.Seq()
	c.RetAt = int64(sim.Now())
	c.Returned = true
	c.Val, c.OK, c.Err = val, ok, err
	sim.Self().Label = ""
	cs.r.Hist(c.Party, c.Kind, c.Arg, val, ok, err)
	cs.r.Logf("return  %s.%s(%d) -> val=%d ok=%v err=%v #%d", c.Party, c.Kind, c.Arg, val, ok, err, c.Ret)
}

// Pending returns calls that have not returned.
func (cs *Calls) Pending() []*Call {
	var out []*Call
	for _, c := range cs.All {
		if !c.Returned {
			out = append(out, c)
		}
	}
	return out
}

// Ctx is a context owned by the harness with a record of when it was cancelled.
type Ctx struct {
	Name      string
	Parent    *Ctx
	C         context.Context
	cancel    context.CancelFunc
	Cancelled bool
	CancelSeq uint64
	CancelAt  int64
}

// NewCtx derives a cancellable context from parent (nil: from context.Background()).
func NewCtx(parent *Ctx, name string) *Ctx {
	var pc context.Context = context.Background()
	if parent != nil {
		pc = parent.C
	}
	c, cancel := context.WithCancel(pc)
	return &Ctx{Name: name, C: c, cancel: cancel, Parent: parent}
}

// PreCancelled derives a context that is already cancelled (at the current simulated time).
func PreCancelled(parent *Ctx, name string) *Ctx {
	c := NewCtx(parent, name)
	c.Cancelled = true
	c.CancelSeq = sim.Seq()
	c.CancelAt = int64(sim.Now())
	c.cancel()
	return c
}

// ExpiredAt returns the simulated time (ns) at which the context expired (own or inherited
// cancellation, whichever came first) and whether it has expired at all.
func (c *Ctx) ExpiredAt() (int64, bool) {
	at, ok := int64(0), false
	for x := c; x != nil; x = x.Parent {
		if x.Cancelled && (!ok || x.CancelAt < at) {
			at, ok = x.CancelAt, true
		}
	}
	return at, ok
}

// Cancel cancels the context (a schedule point) and records the event.
func (c *Ctx) Cancel() {
	if c.Cancelled {
		return
	}
	sim.Yield("ctx.cancel:" + c.Name)
	c.Cancelled = true
	c.CancelSeq = sim.Seq()
	c.CancelAt = int64(sim.Now())
	c.cancel()
}

// Dead reports whether the context has been cancelled by the harness (or its parent has).
func (c *Ctx) Dead() bool { return c.Cancelled || c.C.Err() != nil }

// ErrInjected is the family of injected errors; each has an identity.
type InjErr struct{ Name string }

func (e *InjErr) Error() string { return "injected:" + e.Name }

func NewErr(name string) error { return &InjErr{Name: name} }

func isCtxErr(err error) bool {
	return errors.Is(err, context.Canceled) || errors.Is(err, context.DeadlineExceeded)
}

// Spin lets the calling party give up the token k times (so other parties can get ahead).
func Spin(k int, site string) {
	for i := 0; i < k; i++ {
		sim.Yield(site)
	}
}
