package worlds

import (
	"errors"
	"fmt"
	"strings"
	stdtime "time"

	"github.com/bradenaw/juniper/stream"

	"verifsim/context"
	"verifsim/sim"
	"verifsim/time"
)

// Call is one library call made by a harness party, stamped with global event sequence numbers.
type Call struct {
	Party    string
	Kind     string
	Arg      int
	Inv, Ret uint64 // event sequence numbers of invocation and return (Ret==0: not returned)
	InvAt    int64  // simulated time (ns) at invocation / return
	RetAt    int64
	Returned bool
	Err      error
	Val      int
	OK       bool
	Ctx      *Ctx
	Note     string
}

func (c *Call) String() string {
	s := fmt.Sprintf("%s.%s(%d)", c.Party, c.Kind, c.Arg)
	if c.Returned {
		s += fmt.Sprintf(" -> val=%d ok=%v err=%v [inv#%d ret#%d]", c.Val, c.OK, c.Err, c.Inv, c.Ret)
	} else {
		s += fmt.Sprintf(" (not returned) [inv#%d]", c.Inv)
	}
	return s
}

// Calls is the recorded history of a run.
type Calls struct {
	r   *R
	All []*Call
}

// Begin yields, then records the invocation of a call by the current task.
func (cs *Calls) Begin(party, kind string, arg int, ctx *Ctx) *Call {
	sim.Yield("call:" + kind)
	c := &Call{Party: party, Kind: kind, Arg: arg, Inv: sim.Seq(), InvAt: int64(sim.Now()), Ctx: ctx}
	cs.All = append(cs.All, c)
	sim.Self().Label = fmt.Sprintf("%s.%s(%d)", party, kind, arg)
	cs.r.Logf("invoke  %s.%s(%d) #%d%s", party, kind, arg, c.Inv, ctxNote(ctx))
	return c
}

func ctxNote(ctx *Ctx) string {
	if ctx == nil {
		return ""
	}
	return " ctx=" + ctx.Name
}

// End records the return of a call.
func (cs *Calls) End(c *Call, val int, ok bool, err error) {
	c.Ret = sim.Seq()
	c.RetAt = int64(sim.Now())
	c.Returned = true
	c.Val, c.OK, c.Err = val, ok, err
	sim.Self().Label = ""
	cs.r.Hist(c.Party, c.Kind, c.Arg, val, ok, err)
	cs.r.Logf("return  %s.%s(%d) -> val=%d ok=%v err=%v #%d", c.Party, c.Kind, c.Arg, val, ok, err, c.Ret)
}

// Pending returns calls that have not returned.
func (cs *Calls) Pending() []*Call {
	var out []*Call
	for _, c := range cs.All {
		if !c.Returned {
			out = append(out, c)
		}
	}
	return out
}

// Ctx is a context owned by the harness with a record of when it was cancelled.
type Ctx struct {
	Name      string
	Parent    *Ctx
	C         context.Context
	cancel    context.CancelFunc
	Cancelled bool
	CancelSeq uint64
	CancelAt  int64
	CancelDoneAt int64
	CancelDone   bool
	// HasDeadline/DeadlineAt: the context expires by itself at this simulated time (ns since start).
	HasDeadline bool
	DeadlineAt  int64
	// Uncancellable: context.Background() or a value on it; Cancel does nothing.
	Uncancellable bool
}

// NewCtx derives a cancellable context from parent (nil: from context.Background()).
func NewCtx(parent *Ctx, name string) *Ctx {
	var pc context.Context = context.Background()
	if parent != nil {
		pc = parent.C
	}
	c, cancel := context.WithCancel(pc)
	return &Ctx{Name: name, C: c, cancel: cancel, Parent: parent}
}

// BackgroundCtx is a context that can never end and has no Done channel at all: context.Background()
// itself, or (valued) a value layered on it - what a caller who has nothing to cancel passes in.
func BackgroundCtx(name string, valued bool) *Ctx {
	var c context.Context = context.Background()
	if valued {
		c = context.WithValue(c, ctxKey{}, name)
	}
	return &Ctx{Name: name, C: c, cancel: func() {}, Uncancellable: true}
}

type ctxKey struct{}

// RootCtx is the context a world hands to calls it does not mean to cancel: in one run of four a
// context that has no Done channel at all (context.Background() or a value on it), otherwise a
// cancellable one that simply never gets cancelled.
func RootCtx(r *R) *Ctx {
	switch r.Choose(8, "root-ctx-kind") {
	case 6:
		r.Probe("root-context-without-done-channel")
		return BackgroundCtx("root", false)
	case 7:
		r.Probe("root-context-without-done-channel")
		return BackgroundCtx("root", true)
	}
	c := NewCtx(nil, "root")
	if r.Choose(6, "root-ctx-uncomparable") == 5 {
		// the caller's own Context implementation, one that == cannot compare
		r.Probe("root-context-uncomparable")
		c.Uncomparable()
	}
	return c
}

// NewCauseCtx derives a context that will be cancelled with a cause of its own (Err() is still
// context.Canceled; context.Cause reports the cause).
func NewCauseCtx(parent *Ctx, name string, cause error) *Ctx {
	var pc context.Context = context.Background()
	if parent != nil {
		pc = parent.C
	}
	c, cancel := context.WithCancelCause(pc)
	return &Ctx{Name: name, C: c, cancel: func() { cancel(cause) }, Parent: parent}
}

// PreCancelled derives a context that is already cancelled (at the current simulated time).
func PreCancelled(parent *Ctx, name string) *Ctx {
	c := NewCtx(parent, name)
	c.Cancelled = true
	c.CancelSeq = sim.Seq()
	c.CancelAt = int64(sim.Now())
	c.cancel()
	return c
}

// PreCancelledCause is PreCancelled for a context that was cancelled with a cause.
func PreCancelledCause(parent *Ctx, name string, cause error) *Ctx {
	c := NewCauseCtx(parent, name, cause)
	c.Cancelled = true
	c.CancelSeq = sim.Seq()
	c.CancelAt = int64(sim.Now())
	c.cancel()
	return c
}

// uncomparableCtx is a caller's own Context implementation of the kind that cannot be compared with
// ==: a struct passed by value that holds a slice. Everything is delegated to the wrapped context.
type uncomparableCtx struct {
	context.Context
	tag []int
}

// Uncomparable wraps c's context in such a struct (c keeps being cancellable as before).
func (c *Ctx) Uncomparable() *Ctx {
	c.C = uncomparableCtx{Context: c.C, tag: []int{1}}
	return c
}

// ownErrCtx is a caller's own Context implementation that explains its end with an error value of
// its own (one that wraps context.Canceled) instead of one of the two standard values.
type ownErrCtx struct {
	context.Context
	err error
}

func (c *ownErrCtx) Err() error {
	if c.Context.Err() == nil {
		return nil
	}
	return c.err
}

// OwnErr wraps c's context in such an implementation (c keeps being cancellable as before).
func (c *Ctx) OwnErr() *Ctx {
	c.C = &ownErrCtx{Context: c.C, err: fmt.Errorf("%s gave up: %w", c.Name, context.Canceled)}
	return c
}

// ExpiredAt returns the simulated time (ns) at which the context expired (own or inherited
// cancellation, whichever came first) and whether it has expired at all.
func (c *Ctx) ExpiredAt() (int64, bool) {
	at, ok := int64(0), false
	for x := c; x != nil; x = x.Parent {
		if x.Cancelled && (!ok || x.CancelAt < at) {
			at, ok = x.CancelAt, true
		}
		if x.HasDeadline && int64(sim.Now()) >= x.DeadlineAt && (!ok || x.DeadlineAt < at) {
			at, ok = x.DeadlineAt, true
		}
	}
	return at, ok
}

// Cancel cancels the context (a schedule point) and records the event.
func (c *Ctx) Cancel() {
	if c.Cancelled || c.Uncancellable {
		return
	}
	sim.Yield("ctx.cancel:" + c.Name)
	c.Cancelled = true
	c.CancelSeq = sim.Seq()
	c.CancelAt = int64(sim.Now())
	c.cancel()
	c.CancelDoneAt, c.CancelDone = int64(sim.Now()), true
}

// EndedBy returns an instant by which the context had certainly ended (its deadline, or the moment
// a Cancel call had returned - the cancelling task may have been descheduled inside the call, so
// the moment Cancel was invoked is only a lower bound).
func (c *Ctx) EndedBy() (int64, bool) {
	at, ok := int64(0), false
	for x := c; x != nil; x = x.Parent {
		if x.CancelDone && (!ok || x.CancelDoneAt < at) {
			at, ok = x.CancelDoneAt, true
		}
		if x.HasDeadline && int64(sim.Now()) >= x.DeadlineAt && (!ok || x.DeadlineAt < at) {
			at, ok = x.DeadlineAt, true
		}
	}
	return at, ok
}

// Dead reports whether the context has been cancelled by the harness (or its parent has).
func (c *Ctx) Dead() bool { return c.Cancelled || c.C.Err() != nil }

// ErrInjected is the family of injected errors; each has an identity.
type InjErr struct{ Name string }

func (e *InjErr) Error() string { return "injected:" + e.Name }

func NewErr(name string) error { return &InjErr{Name: name} }

func isCtxErr(err error) bool {
	return errors.Is(err, context.Canceled) || errors.Is(err, context.DeadlineExceeded)
}

// Spin lets the calling party give up the token k times (so other parties can get ahead).
func Spin(k int, site string) {
	for i := 0; i < k; i++ {
		sim.Yield(site)
	}
}

// ---- instrumented source stream -----------------------------------------------------------------

// Src is a scripted, instrumented stream.Stream[int]: it yields Items in order, may fail, may be
// slow, honours (or ignores) its context, and logs every Next/Close with event numbers so that
// ownership oracles (closed exactly once, never used after, no overlap) can be evaluated.
type Src struct {
	R     *R
	Name  string
	Items []int
	// ErrAt >= 0: after ErrAt items every Next fails with Err (permanent).
	ErrAt int
	Err   error
	// Transient[p]: the first Next at position p fails with this error, the retry succeeds.
	Transient map[int]error
	// Delay[p]: simulated time Next takes before handing over item p (or the end/error at p).
	Delay map[int]time.Duration
	// BlockAt >= 0: Next at position BlockAt blocks until its context is done.
	BlockAt int
	// IgnoreCtx: Next pays no attention to its context (neither at entry nor while it is slow).
	IgnoreCtx bool
	// ReadyBlind: Next looks at its context only when it has to wait; an item that is ready is handed
	// over without a glance at the context (as stream.FromIterator or a slice-backed source does).
	ReadyBlind bool
	// DeadPulls counts the Next calls that began with a context that had already ended (a ReadyBlind
	// source hands its item over all the same). Past DeadLimit (> 0) the source reports errStillRead
	// instead: whoever keeps reading it does not stop because its context ended.
	DeadPulls int
	DeadLimit int
	// CloseDelay: Close takes this much simulated time.
	CloseDelay time.Duration
	CloseRet   []uint64 // event numbers at which Close returned
	CloseRetAt []int64  // ... and the simulated instants
	NextInv   []uint64 // event number of every Next invocation

	Pos        int
	NextCalls  int
	NextActive int
	Closed     []uint64 // event numbers of Close invocations
	HandOver   []int64  // simulated time (ns) at which item i was handed over
	HandSeq    []uint64
	EndSeq     uint64 // event number at which End/the permanent error was first reported (0: not yet)
	EndAt      int64
	Violations []string // ownership violations observed by the source itself: kind strings
	LastNextRet uint64
}

// errStillRead ends a source that is still being read although the context it is read with ended long ago.
var errStillRead = NewErr("harness: the source is still being read although its context ended long ago")

func NewSrc(r *R, name string, items []int) *Src {
	return &Src{R: r, Name: name, Items: items, ErrAt: -1, BlockAt: -1}
}

func (s *Src) violate(kind string) {
	s.Violations = append(s.Violations, kind)
	s.R.Logf("source %s: OWNERSHIP %s", s.Name, kind)
}

// Next implements stream.Stream[int].
func (s *Src) Next(ctx context.Context) (int, error) {
	sim.NoteProgress() // the library asking its source for an item is progress, not spinning
	if len(s.Closed) > 0 {
		s.violate("next-after-close")
	}
	if s.NextActive > 0 {
		s.violate("concurrent-next")
	}
	s.NextActive++
	s.NextCalls++
	s.NextInv = append(s.NextInv, sim.Seq())
	defer func() { s.NextActive--; s.LastNextRet = sim.Seq() }()
	sim.Yield("src.Next:" + s.Name)
	if s.IgnoreCtx {
		ctx = context.Background()
	}
	if ctx.Err() != nil {
		if s.DeadPulls++; s.DeadLimit > 0 && s.DeadPulls > s.DeadLimit {
			return 0, errStillRead
		}
	}
	if err := ctx.Err(); err != nil && !s.ReadyBlind {
		s.R.Logf("source %s: Next -> %v (context already done)", s.Name, err)
		return 0, err
	}
	p := s.Pos
	if s.BlockAt == p {
		s.R.Fault("src_slow")
		if !WaitDone(ctx, -1, "src.block:"+s.Name) {
			return 0, ctx.Err()
		}
	}
	if d, ok := s.Delay[p]; ok && d > 0 {
		delete(s.Delay, p)
		if !WaitDone(ctx, d, "src.delay:"+s.Name) {
			s.R.Logf("source %s: Next -> %v (context done while waiting)", s.Name, ctx.Err())
			return 0, ctx.Err()
		}
	}
	if e, ok := s.Transient[p]; ok {
		delete(s.Transient, p)
		s.R.Fault("src_transient")
		s.R.Logf("source %s: Next -> transient %v at position %d", s.Name, e, p)
		return 0, e
	}
	if s.ErrAt >= 0 && p >= s.ErrAt {
		if s.EndSeq == 0 {
			s.EndSeq = sim.Seq()
			s.EndAt = int64(sim.Now())
			s.R.Fault("src_error")
		}
		s.R.Logf("source %s: Next -> error %v at position %d", s.Name, s.Err, p)
		return 0, s.Err
	}
	if p >= len(s.Items) {
		if s.EndSeq == 0 {
			s.EndSeq = sim.Seq()
			s.EndAt = int64(sim.Now())
		}
		s.R.Logf("source %s: Next -> End", s.Name)
		return 0, stream.End
	}
	s.Pos++
	s.HandOver = append(s.HandOver, int64(sim.Now()))
	s.HandSeq = append(s.HandSeq, sim.Seq())
	s.R.Logf("source %s: Next -> item %d (position %d)", s.Name, s.Items[p], p)
	return s.Items[p], nil
}

// Close implements stream.Stream[int].
func (s *Src) Close() {
	sim.NoteProgress()
	if sim.Tearing() {
		return
	}
	if s.NextActive > 0 {
		s.violate("close-during-next")
	}
	if len(s.Closed) > 0 {
		s.violate("double-close")
	}
	s.Closed = append(s.Closed, sim.Seq())
	s.R.Logf("source %s: Close (#%d)", s.Name, len(s.Closed))
	sim.Yield("src.Close:" + s.Name)
	if s.CloseDelay > 0 {
		sim.Sleep(s.CloseDelay, "src.Close-slow:"+s.Name)
	}
	s.CloseRet = append(s.CloseRet, sim.Seq())
	s.CloseRetAt = append(s.CloseRetAt, int64(sim.Now()))
}

// WaitDone waits for d of simulated time (d < 0: for ever) or until ctx is done, whichever is
// first; it reports whether the full time elapsed.
func WaitDone(ctx context.Context, d time.Duration, site string) bool {
	t := sim.Pre(site)
	var tc <-chan time.Time
	var tm *stdtime.Timer
	if d >= 0 {
		tm = stdtime.NewTimer(d)
		tc = tm.C
	}
	sim.BeginOp(t)
	ok := false
	select {
	case <-tc:
		ok = true
	case <-ctx.Done():
		if tm != nil {
			tm.Stop()
		}
	case <-sim.KillC(t):
		if tm != nil {
			tm.Stop()
		}
		sim.Die()
	}
	sim.EndOp(t)
	return ok
}

// NewDeadlineCtx derives a context that expires after d of simulated time.
// NewDeadlineCtx derives a context that expires d from now - plus a few nanoseconds that differ from
// one call to the next. The library usually waits for such a context in a select next to a timer of
// its own; if both fell due at exactly the same simulated instant, which of the two ready cases the
// blocked select wakes up with would be the Go runtime's choice and the run would not replay. The
// oracles work from DeadlineAt, the instant actually used. NewDeadlineCtxExact is for the places
// that need a deadline at an exact distance.
func NewDeadlineCtx(parent *Ctx, name string, d time.Duration) *Ctx {
	return NewDeadlineCtxExact(parent, name, d+time.Duration(3+14*(sim.Seq()%499)))
}

func NewDeadlineCtxExact(parent *Ctx, name string, d time.Duration) *Ctx {
	var pc context.Context = context.Background()
	if parent != nil {
		pc = parent.C
	}
	c, cancel := context.WithTimeout(pc, d)
	// When the deadline passes nobody may be blocked on this context; a tiny task makes the
	// scheduler take a step at that instant so that WaitUntil conditions see the expiry on time.
	context.AfterFunc(c, func() {})
	return &Ctx{Name: name, C: c, cancel: cancel, Parent: parent, HasDeadline: true, DeadlineAt: int64(sim.Now() + d)}
}

// PastDeadline derives a context whose deadline passed before it was made (Err() is
// context.DeadlineExceeded from the start).
func PastDeadline(parent *Ctx, name string) *Ctx {
	c := NewDeadlineCtxExact(parent, name, -time.Millisecond)
	c.Cancelled = true
	c.CancelSeq = sim.Seq()
	c.CancelAt = int64(sim.Now())
	c.CancelDoneAt, c.CancelDone = c.CancelAt, true
	return c
}

// LibraryTasks returns the live tasks that were started by library code (through a rewritten go
// statement or a timer), i.e. not by the harness.
func LibraryTasks() []*sim.Task {
	var out []*sim.Task
	for _, t := range sim.LiveTasks() {
		if episodeLeftovers[t] {
			continue
		}
		if strings.Contains(t.Name, ".go:") || strings.HasPrefix(t.Name, "time.AfterFunc") {
			out = append(out, t)
		}
	}
	return out
}

// episodeLeftovers holds the library goroutines that the first episode of a two-episode run left
// behind with the world's consent (for instance an input that never returns and ignores its
// context): they are not the second episode's business.
var episodeLeftovers map[*sim.Task]bool

// BeginEpisode is called by the runner before each episode of a run.
func BeginEpisode(n int) {
	episodeLeftovers = nil
	if n > 0 {
		left := map[*sim.Task]bool{}
		for _, t := range LibraryTasks() {
			left[t] = true
		}
		episodeLeftovers = left
	}
}

func taskNames(ts []*sim.Task) string {
	var s []string
	for _, t := range ts {
		s = append(s, fmt.Sprintf("%v@%s", t, t.Site()))
	}
	return strings.Join(s, ", ")
}


// passThrough re-panics the two panic values that are not the library's: the scheduler unwinding a
// task at teardown, and a simulator primitive reached outside a simulation (the runner answers that
// one by running the world again under the scheduler). Every recover() in a world starts with it.
func passThrough(p any) {
	if p == sim.Killed {
		panic(p)
	}
	if _, ok := p.(sim.OutsideSim); ok {
		panic(p)
	}
}
