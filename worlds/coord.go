package worlds

import (
	"encoding/json"
	"fmt"
	"os"
	"os/exec"
	"path/filepath"
	"regexp"
	"sort"
	"strconv"
	"strings"
	"time"

	"verifsim/sim"
)

// ---- known findings ---------------------------------------------------------------------------

type Finding struct {
	Prop   string `json:"property"`
	Sig    string `json:"signature"`
	What   string `json:"what"`
	Commit string `json:"commit,omitempty"`
}

type FindingsFile struct {
	Known []Finding `json:"known"`
	Fixed []Finding `json:"fixed"`
}

func loadFindings(root string) (*FindingsFile, error) {
	var ff FindingsFile
	b, err := os.ReadFile(filepath.Join(root, "known_findings.json"))
	if err != nil {
		if os.IsNotExist(err) {
			return &ff, nil
		}
		return nil, err
	}
	if err := json.Unmarshal(b, &ff); err != nil {
		return nil, err
	}
	return &ff, nil
}

func (ff *FindingsFile) known(prop, sig string) *Finding {
	for i := range ff.Known {
		if ff.Known[i].Prop == prop && ff.Known[i].Sig == sig {
			return &ff.Known[i]
		}
	}
	return nil
}

// ---- replay files -----------------------------------------------------------------------------

type ReplayFile struct {
	Property  string       `json:"property"`
	World     string       `json:"world"`
	Tier      string       `json:"tier"`
	Seed      uint64       `json:"verif_seed"`
	RunIndex  int          `json:"run_index"`
	Signature string       `json:"signature"`
	Message   string       `json:"message"`
	Tape      []int        `json:"tape"`
	GenSeed   uint64       `json:"generator_seed,omitempty"` // set instead of a tape when the run never finished
	TapeKinds []string     `json:"tape_kinds,omitempty"`
	OrigLen   int          `json:"original_tape_len"`
	MinExecs  int          `json:"minimiser_executions"`
	Log       []string     `json:"log,omitempty"`
	Schedule  []string     `json:"schedule,omitempty"`
}

var slugRe = regexp.MustCompile(`[^A-Za-z0-9_.-]+`)

func slug(s string) string {
	s = slugRe.ReplaceAllString(s, "_")
	if len(s) > 60 {
		s = s[:60]
	}
	return s
}

func schedLines(tr []sim.TraceEntry) []string {
	out := make([]string, 0, len(tr))
	for _, e := range tr {
		out = append(out, fmt.Sprintf("#%d t=%v T%d %s", e.Seq, e.At, e.Task, e.What))
	}
	return out
}

// ---- worker -----------------------------------------------------------------------------------

type ViolOut struct {
	Violation
	World  string `json:"world"`
	Replay string `json:"replay"`
	Known  bool   `json:"known"`
	Count  int    `json:"count"`
}

type Sample struct {
	World    string   `json:"world"`
	RunIndex int      `json:"run_index"`
	Verdict  string   `json:"verdict"`
	Faults   map[string]int `json:"faults_fired,omitempty"`
	Log      []string `json:"history"`
	Schedule []string `json:"schedule,omitempty"`
}

type WorkerOut struct {
	World        string            `json:"world"`
	Runs         int               `json:"runs"`
	Nontrivial   int               `json:"nontrivial"`
	Steps        int64             `json:"steps"`
	Switches     int64             `json:"switches"`
	SimTimeNs    int64             `json:"sim_time_ns"`
	Verdicts     map[string]int    `json:"verdicts"`
	Probes       map[string]int    `json:"probes"`
	Faults       map[string]int    `json:"faults"`
	Strategies   map[string]int    `json:"strategies"`
	Hashes       []uint64          `json:"hashes"`
	Scheds       []uint64          `json:"scheds"`
	States       []uint64          `json:"states"`
	Pairs        []string          `json:"pairs"`
	Violations   []ViolOut         `json:"violations"`
	Sibling      int               `json:"aborted_by_sibling"`
	DetReplays   int               `json:"determinism_replays"`
	DetMismatch  int               `json:"determinism_mismatches"`
	Samples      []Sample          `json:"samples"`
	HarnessErrs  []string          `json:"harness_errors"`
	WallS        float64           `json:"wall_s"`
}

type WorkerArgs struct {
	Root    string
	World   string
	Prop    string
	Tier    string
	Seed    uint64
	Worker  int
	Workers int
	Seconds float64
	MaxRuns int
	Out     string
}

const maxSet = 1 << 20

func runSeed(seed uint64, world string, idx int) uint64 {
	return sim.Mix(seed, sim.MixString(world), uint64(idx))
}

func RunWorker(a WorkerArgs) int {
	w := registry[a.World]
	if w == nil {
		fmt.Fprintf(os.Stderr, "unknown world %q\n", a.World)
		return 2
	}
	ff, err := loadFindings(a.Root)
	if err != nil {
		fmt.Fprintln(os.Stderr, "known_findings.json:", err)
		return 2
	}
	start := time.Now()
	deadline := start.Add(time.Duration(a.Seconds * float64(time.Second)))
	out := &WorkerOut{World: w.Name, Verdicts: map[string]int{}, Probes: map[string]int{}, Faults: map[string]int{}, Strategies: map[string]int{}}
	hashes := map[uint64]struct{}{}
	scheds := map[uint64]struct{}{}
	states := map[uint64]struct{}{}
	pairs := map[string]struct{}{}
	seenSig := map[string]int{}
	unlisted := 0
	var minimiseSpent time.Duration
	var dump *os.File
	if p := os.Getenv("VERIF_DUMP_HASHES"); p != "" {
		dump, _ = os.Create(p)
		defer dump.Close()
	}
	for idx := a.Worker; ; idx += a.Workers {
		if a.MaxRuns > 0 && out.Runs >= a.MaxRuns {
			break
		}
		if out.Runs > 0 && time.Now().After(deadline) {
			break
		}
		seed := runSeed(a.Seed, w.Name, idx)
		traceThis := os.Getenv("VERIF_TRACE_RUN") == strconv.Itoa(idx)
		res, finished := RunOneGuarded(w, sim.NewGenTape(seed), a.Prop, a.Tier, traceThis)
		if traceThis && finished {
			for _, e := range res.Sched {
				fmt.Fprintf(os.Stderr, "sched %+v\n", e)
			}
			for _, l := range res.Log {
				fmt.Fprintln(os.Stderr, "log  ", l)
			}
		}
		if !finished {
			// a call into the library never came back: report it and stop this worker (the stuck
			// goroutine cannot be killed)
			sig := "does-not-return/" + w.Name
			vo := ViolOut{Violation: Violation{Prop: a.Prop, Sig: sig, Msg: fmt.Sprintf("run %d of world %s did not finish within %v of wall-clock time: a library call neither returns nor panics (replay regenerates the run from its seed)", idx, w.Name, HangLimit)}, World: w.Name, Count: 1}
			if ff.known(a.Prop, sig) != nil {
				vo.Known = true
			} else {
				rf := ReplayFile{Property: a.Prop, World: w.Name, Tier: a.Tier, Seed: a.Seed, RunIndex: idx, Signature: sig, Message: vo.Msg, GenSeed: seed}
				dir := replayDir(a.Root)
				os.MkdirAll(dir, 0o755)
				path := filepath.Join(dir, fmt.Sprintf("%s-%s-%d-%d.json", a.Prop, slug(sig), a.Seed, idx))
				b, _ := json.MarshalIndent(rf, "", " ")
				os.WriteFile(path, b, 0o644)
				vo.Replay = path
			}
			out.Runs++
			out.Verdicts["does-not-return"]++
			out.Violations = append(out.Violations, vo)
			break
		}
		out.Runs++
		if dump != nil {
			sig := ""
			if res.Viol != nil {
				sig = res.Viol.Sig
			}
			fmt.Fprintf(dump, "%d %x %d %d %s %s\n", idx, res.Hash, res.Steps, len(res.Tape), res.Verdict, sig)
		}
		out.Steps += int64(res.Steps)
		out.Switches += int64(res.Switches)
		out.SimTimeNs += int64(res.SimTime)
		out.Verdicts[res.Verdict]++
		if w.Concurrent {
			out.Strategies[sim.StrategyNames[res.Strategy]]++
		}
		nfault := 0
		for k, v := range res.Probes {
			out.Probes[k] += v
		}
		for k, v := range res.Faults {
			out.Faults[k] += v
			nfault += v
		}
		for k := range res.Pairs {
			if len(pairs) < maxSet {
				pairs[k] = struct{}{}
			}
		}
		for k := range res.States {
			if len(states) < maxSet {
				states[k] = struct{}{}
			}
		}
		if res.Switches > 0 || nfault > 0 || (!w.Concurrent && res.Steps > 0) {
			out.Nontrivial++
			if len(hashes) < maxSet {
				hashes[res.Hash] = struct{}{}
			}
			if w.Concurrent && len(scheds) < maxSet {
				scheds[res.SchedHash] = struct{}{}
			}
		}
		if res.LeakPanic != "" && len(out.HarnessErrs) < 5 {
			out.HarnessErrs = append(out.HarnessErrs, fmt.Sprintf("run %d: %s", idx, res.LeakPanic))
		}
		// in-process determinism spot check: re-execute 1 in 50 runs from the recorded tape
		if out.Runs%50 == 1 && res.LeakPanic == "" && !Hung {
			again := RunOne(w, sim.NewReplayTape(res.Tape), a.Prop, a.Tier, false)
			out.DetReplays++
			if again.Hash != res.Hash || (again.Viol == nil) != (res.Viol == nil) {
				out.DetMismatch++
				if len(out.HarnessErrs) < 5 {
					out.HarnessErrs = append(out.HarnessErrs, fmt.Sprintf("run %d: replay of the recorded tape gave a different history (hash %x vs %x)", idx, res.Hash, again.Hash))
				}
			}
		}
		if res.Viol == nil {
			continue
		}
		v := res.Viol
		if v.Prop != a.Prop {
			out.Sibling++
			continue
		}
		key := v.Prop + "|" + v.Sig
		if n, ok := seenSig[key]; ok {
			out.Violations[n].Count++
			continue
		}
		vo := ViolOut{Violation: *v, World: w.Name, Count: 1}
		if ff.known(v.Prop, v.Sig) != nil {
			vo.Known = true
		} else {
			// minimise, re-run with tracing, write the replay file
			// at most 60 s of minimisation per worker in total (the coordinator's watchdog allows for it)
			budget, maxExec := 30*time.Second, 2000
			if !w.Concurrent {
				maxExec = 40000 // histories are long but each execution is cheap
			}
			if left := 60*time.Second - minimiseSpent; left < budget {
				budget = left
			}
			if budget < time.Second {
				budget = time.Second
			}
			t0 := time.Now()
			min, execs := Minimise(w, a.Prop, a.Tier, res.Tape, v, budget, maxExec)
			minimiseSpent += time.Since(t0)
			if Hung {
				// a candidate tape made the library hang: keep what we have, finish this worker
				rf := ReplayFile{Property: v.Prop, World: w.Name, Tier: a.Tier, Seed: a.Seed, RunIndex: idx, Signature: v.Sig, Message: v.Msg, Tape: min, OrigLen: len(res.Tape), MinExecs: execs}
				dir := replayDir(a.Root)
				os.MkdirAll(dir, 0o755)
				path := filepath.Join(dir, fmt.Sprintf("%s-%s-%d-%d.json", v.Prop, slug(v.Sig), a.Seed, idx))
				b, _ := json.MarshalIndent(rf, "", " ")
				os.WriteFile(path, b, 0o644)
				vo.Replay = path
				out.Violations = append(out.Violations, vo)
				break
			}
			final := RunOne(w, sim.NewReplayTape(min), a.Prop, a.Tier, true)
			if final.Viol == nil || final.Viol.Sig != v.Sig || final.Viol.Prop != v.Prop {
				// should not happen (Minimise only keeps reproducing candidates); fall back to the original
				min = res.Tape
				final = RunOne(w, sim.NewReplayTape(min), a.Prop, a.Tier, true)
			}
			rf := ReplayFile{Property: v.Prop, World: w.Name, Tier: a.Tier, Seed: a.Seed, RunIndex: idx, Signature: v.Sig, Tape: min, OrigLen: len(res.Tape), MinExecs: execs}
			if final.Viol != nil {
				rf.Message = final.Viol.Msg
			} else {
				rf.Message = v.Msg
			}
			for _, c := range final.Kinds {
				rf.TapeKinds = append(rf.TapeKinds, c.Kind+"/"+strconv.Itoa(c.N)+"="+strconv.Itoa(c.V))
			}
			rf.Log = final.Log
			rf.Schedule = schedLines(final.Sched)
			dir := replayDir(a.Root)
			os.MkdirAll(dir, 0o755)
			path := filepath.Join(dir, fmt.Sprintf("%s-%s-%d-%d.json", v.Prop, slug(v.Sig), a.Seed, idx))
			b, _ := json.MarshalIndent(rf, "", " ")
			if err := os.WriteFile(path, b, 0o644); err != nil {
				fmt.Fprintln(os.Stderr, "cannot write replay:", err)
				return 2
			}
			vo.Replay = path
			vo.Msg = rf.Message
			unlisted++
		}
		seenSig[key] = len(out.Violations)
		out.Violations = append(out.Violations, vo)
		if unlisted >= 3 {
			break
		}
	}
	// samples: worker 0 re-executes its first run indices with tracing
	if a.Worker == 0 && !Hung && out.Verdicts["does-not-return"] == 0 {
		for k := 0; k < 3; k++ {
			idx := a.Worker + k*a.Workers
			res := RunOne(w, sim.NewGenTape(runSeed(a.Seed, w.Name, idx)), a.Prop, a.Tier, true)
			s := Sample{World: w.Name, RunIndex: idx, Verdict: res.Verdict, Faults: res.Faults, Log: clip(res.Log, 80), Schedule: clip(schedLines(res.Sched), 60)}
			out.Samples = append(out.Samples, s)
		}
	}
	for h := range hashes {
		out.Hashes = append(out.Hashes, h)
	}
	for h := range scheds {
		out.Scheds = append(out.Scheds, h)
	}
	for h := range states {
		out.States = append(out.States, h)
	}
	for p := range pairs {
		out.Pairs = append(out.Pairs, p)
	}
	sort.Strings(out.Pairs)
	out.WallS = time.Since(start).Seconds()
	b, _ := json.Marshal(out)
	if err := os.WriteFile(a.Out, b, 0o644); err != nil {
		fmt.Fprintln(os.Stderr, err)
		return 2
	}
	return 0
}

func clip(s []string, n int) []string {
	if len(s) <= n {
		return s
	}
	out := append([]string(nil), s[:n]...)
	return append(out, fmt.Sprintf("... (%d more lines)", len(s)-n))
}

// ---- replay -----------------------------------------------------------------------------------

// RunReplay re-executes a replay file; exit 1 iff the same oracle fires with the same signature.
func RunReplay(path string, quiet bool) int {
	b, err := os.ReadFile(path)
	if err != nil {
		fmt.Fprintln(os.Stderr, err)
		return 2
	}
	var rf ReplayFile
	if err := json.Unmarshal(b, &rf); err != nil {
		fmt.Fprintln(os.Stderr, err)
		return 2
	}
	w := registry[rf.World]
	if w == nil {
		fmt.Fprintf(os.Stderr, "unknown world %q\n", rf.World)
		return 2
	}
	tier := rf.Tier
	if tier == "" {
		tier = "quick"
	}
	tape := sim.NewReplayTape(rf.Tape)
	if rf.GenSeed != 0 {
		tape = sim.NewGenTape(rf.GenSeed)
	}
	res, finished := RunOneGuarded(w, tape, rf.Property, tier, true)
	if !finished {
		if strings.HasPrefix(rf.Signature, "does-not-return/") {
			fmt.Printf("REPRODUCED property=%s signature=%s\nthe run again did not finish within %v\n", rf.Property, rf.Signature, HangLimit)
			os.Stdout.Sync()
			os.Exit(1)
		}
		fmt.Printf("the replay did not finish within %v\n", HangLimit)
		os.Stdout.Sync()
		os.Exit(3)
	}
	if !quiet {
		fmt.Printf("replay of %s: world=%s property=%s tape=%d choices\n", path, rf.World, rf.Property, len(rf.Tape))
		for _, l := range schedLines(res.Sched) {
			fmt.Println("  sched", l)
		}
		for _, l := range res.Log {
			fmt.Println("  hist ", l)
		}
	}
	if res.Viol != nil && res.Viol.Prop == rf.Property && res.Viol.Sig == rf.Signature {
		fmt.Printf("REPRODUCED property=%s signature=%s\n%s\n", res.Viol.Prop, res.Viol.Sig, res.Viol.Msg)
		return 1
	}
	if res.Viol != nil {
		fmt.Printf("DIFFERENT violation: property=%s signature=%s\n%s\n", res.Viol.Prop, res.Viol.Sig, res.Viol.Msg)
		return 3
	}
	fmt.Println("NOT REPRODUCED: the run satisfied every oracle")
	return 0
}

// ---- coordinator ------------------------------------------------------------------------------

type CoordArgs struct {
	Root    string
	Prop    string
	Tier    string
	Seed    uint64
	Workers int
	Seconds float64
	MaxRuns int
	Binary  string
	Level   string
}

func RunCoord(a CoordArgs) int {
	start := time.Now()
	ws := WorldsFor(a.Prop)
	if len(ws) == 0 {
		fmt.Fprintf(os.Stderr, "no world decides property %s\n", a.Prop)
		return 2
	}
	ff, err := loadFindings(a.Root)
	if err != nil {
		fmt.Fprintln(os.Stderr, "known_findings.json:", err)
		return 2
	}
	tmp, err := os.MkdirTemp(filepath.Join(a.Root, ".cache"), "run-")
	if err != nil {
		fmt.Fprintln(os.Stderr, err)
		return 2
	}
	defer os.RemoveAll(tmp)
	fmt.Printf("check %s tier=%s VERIF_SEED=%d worlds=%v workers=%d budget=%.0fs\n", a.Prop, a.Tier, a.Seed, worldNames(ws), a.Workers, a.Seconds)
	var outs []*WorkerOut
	per := a.Seconds / float64(len(ws))
	for _, w := range ws {
		type job struct {
			cmd  *exec.Cmd
			file string
			log  *strings.Builder
		}
		var jobs []job
		for k := 0; k < a.Workers; k++ {
			f := filepath.Join(tmp, fmt.Sprintf("%s-%d.json", w.Name, k))
			cmd := exec.Command(a.Binary, "-test.run=^TestHarness$", "-test.timeout=0",
				"-mode=worker", "-world="+w.Name, "-prop="+a.Prop, "-tier="+a.Tier,
				"-seed="+strconv.FormatUint(a.Seed, 10), "-worker="+strconv.Itoa(k), "-workers="+strconv.Itoa(a.Workers),
				"-seconds="+strconv.FormatFloat(per, 'f', 2, 64), "-maxruns="+strconv.Itoa(a.MaxRuns), "-out="+f, "-root="+a.Root)
			lb := &strings.Builder{}
			cmd.Stdout = lb
			cmd.Stderr = lb
			if err := cmd.Start(); err != nil {
				fmt.Fprintln(os.Stderr, "cannot start worker:", err)
				return 2
			}
			jobs = append(jobs, job{cmd, f, lb})
		}
		// watchdog: a worker that overruns its budget by a wide margin is tooling trouble
		limit := time.Duration((per*3+240)*float64(time.Second))
		for _, j := range jobs {
			done := make(chan error, 1)
			go func() { done <- j.cmd.Wait() }()
			select {
			case err := <-done:
				if err != nil {
					fmt.Fprintf(os.Stderr, "worker failed: %v\n%s\n", err, tail(j.log.String(), 4000))
					return 2
				}
			case <-time.After(limit):
				j.cmd.Process.Kill()
				fmt.Fprintf(os.Stderr, "worker exceeded the watchdog limit of %v (tooling trouble, not a violation)\n%s\n", limit, tail(j.log.String(), 4000))
				return 2
			}
			b, err := os.ReadFile(j.file)
			if err != nil {
				fmt.Fprintf(os.Stderr, "worker wrote no result: %v\n%s\n", err, tail(j.log.String(), 4000))
				return 2
			}
			var wo WorkerOut
			if err := json.Unmarshal(b, &wo); err != nil {
				fmt.Fprintln(os.Stderr, "bad worker result:", err)
				return 2
			}
			outs = append(outs, &wo)
		}
	}
	// merge
	type agg struct {
		runs, nontrivial int
		steps, switches  int64
		simNs            int64
	}
	var g agg
	verdicts, probes, faults, strategies := map[string]int{}, map[string]int{}, map[string]int{}, map[string]int{}
	hashes, states, pairs := map[uint64]struct{}{}, map[uint64]struct{}{}, map[string]struct{}{}
	scheds := map[uint64]struct{}{}
	var samples []Sample
	var herrs []string
	detN, detBad, sibling := 0, 0, 0
	viols := map[string]*ViolOut{}
	var violOrder []string
	for _, o := range outs {
		g.runs += o.Runs
		g.nontrivial += o.Nontrivial
		g.steps += o.Steps
		g.switches += o.Switches
		g.simNs += o.SimTimeNs
		for k, v := range o.Verdicts {
			verdicts[k] += v
		}
		for k, v := range o.Probes {
			probes[k] += v
		}
		for k, v := range o.Faults {
			faults[k] += v
		}
		for k, v := range o.Strategies {
			strategies[k] += v
		}
		for _, h := range o.Hashes {
			hashes[h ^ sim.MixString(o.World)] = struct{}{}
		}
		for _, h := range o.Scheds {
			scheds[h^sim.MixString(o.World)] = struct{}{}
		}
		for _, h := range o.States {
			states[h ^ sim.MixString(o.World)] = struct{}{}
		}
		for _, p := range o.Pairs {
			pairs[o.World+":"+p] = struct{}{}
		}
		samples = append(samples, o.Samples...)
		herrs = append(herrs, o.HarnessErrs...)
		detN += o.DetReplays
		detBad += o.DetMismatch
		sibling += o.Sibling
		for i := range o.Violations {
			v := o.Violations[i]
			key := v.Prop + "|" + v.Sig
			if old, ok := viols[key]; ok {
				old.Count += v.Count
				if old.Replay == "" {
					old.Replay = v.Replay
				}
			} else {
				vv := v
				viols[key] = &vv
				violOrder = append(violOrder, key)
			}
		}
	}
	sort.Strings(violOrder)
	exit := 0
	if detBad > 0 {
		fmt.Fprintf(os.Stderr, "determinism self-check failed: %d of %d in-process replays differed (tooling trouble, not a violation)\n%s\n", detBad, detN, strings.Join(herrs, "\n"))
		exit = 2
	}
	if verdicts["harness-error"] > 0 {
		fmt.Fprintf(os.Stderr, "harness errors in %d runs (tooling trouble, not a violation):\n%s\n", verdicts["harness-error"], strings.Join(herrs, "\n"))
		exit = 2
	}
	nviol, nknown := 0, 0
	var knownHit []string
	for _, key := range violOrder {
		v := viols[key]
		if f := ff.known(v.Prop, v.Sig); f != nil {
			fmt.Printf("KNOWN-FINDING: property=%s signature=%s runs=%d %s\n", v.Prop, v.Sig, v.Count, f.What)
			knownHit = append(knownHit, v.Sig)
			nknown++
			continue
		}
		// confirm in a fresh process
		cmd := exec.Command(a.Binary, "-test.run=^TestHarness$", "-test.timeout=0", "-mode=replay", "-quiet", "-file="+v.Replay, "-root="+a.Root)
		outb, err := cmd.CombinedOutput()
		code := 0
		if err != nil {
			if ee, ok := err.(*exec.ExitError); ok {
				code = ee.ExitCode()
			} else {
				code = 2
			}
		}
		if code != 1 {
			fmt.Fprintf(os.Stderr, "violation %s %s did not reproduce from its replay file in a fresh process (exit %d): nondeterminism is tooling trouble, not a reported violation\n%s\n", v.Prop, v.Sig, code, tail(string(outb), 2000))
			if exit == 0 {
				exit = 2
			}
			continue
		}
		nviol++
		fmt.Printf("VIOLATION property=%s replay=%s\n", v.Prop, v.Replay)
		fmt.Printf("  signature: %s (seen in %d runs)\n  %s\n", v.Sig, v.Count, strings.ReplaceAll(v.Msg, "\n", "\n  "))
		if exit == 0 {
			exit = 1
		}
	}
	// evidence
	distinct := len(hashes)
	rule := "each evaluation is one complete simulated run (world parameters, fault plan and schedule all drawn from one seeded choice tape); a run is non-trivial if the scheduler switched tasks at least once or at least one injected fault actually fired; distinct = distinct hashes of (schedule decisions, harness-visible history)"
	if !ws[0].Concurrent {
		rule = "each evaluation is one seeded operation history against the reference model (no scheduler: the container has no goroutines); non-trivial = at least one operation executed; distinct = distinct hashes of the whole observed history"
		if len(states) > 0 {
			distinct = len(states)
			rule = "each evaluation is one seeded operation history against the reference model (no scheduler: the container has no goroutines); distinct_nontrivial counts distinct (structure shape class, operation kind) pairs reached across all histories, read through the read-only hook"
		}
	}
	wall := time.Since(start).Seconds()
	cov := map[string]any{
		"evaluations":          g.runs,
		"distinct_nontrivial":  distinct,
		"rule":                 rule,
		"samples":              samples,
		"worlds":               worldNames(ws),
		"nontrivial_runs":      g.nontrivial,
		"distinct_histories":   len(hashes),
		"distinct_states":      len(states),
		"distinct_schedules":   len(scheds),
		"steps":                g.steps,
		"context_switches":     g.switches,
		"switch_pair_coverage": len(pairs),
		"sim_time_covered_s":   float64(g.simNs) / 1e9,
		"runs_per_hour":        float64(g.runs) / wall * 3600,
		"seeds":                []uint64{a.Seed},
		"verdicts":             verdicts,
		"fault_counts":         faults,
		"probes":               probes,
		"strategies":           strategies,
		"known_findings_hit":   knownHit,
		"aborted_by_sibling":   sibling,
		"determinism_replays":  map[string]int{"n": detN, "mismatches": detBad},
		"workers":              a.Workers,
		"components_real":      componentsReal(ws),
		"components_simulated": componentsSim(ws),
		"exhaustive":           false,
	}
	ev := map[string]any{
		"property_id": a.Prop,
		"tier":        a.Tier,
		"seed":        a.Seed,
		"level":       a.Level,
		"coverage":    cov,
		"assumptions": assumptions(ws),
		"wall_s":      wall,
		"violations":  nviol,
	}
	os.MkdirAll(filepath.Join(a.Root, "evidence"), 0o755)
	eb, _ := json.MarshalIndent(ev, "", " ")
	if err := os.WriteFile(filepath.Join(a.Root, "evidence", a.Prop+".json"), eb, 0o644); err != nil {
		fmt.Fprintln(os.Stderr, err)
		return 2
	}
	var zero []string
	for _, v := range probeList(ws, a.Prop) {
		if strings.HasPrefix(v, "thorough:") {
			if a.Tier != "thorough" {
				continue
			}
			v = strings.TrimPrefix(v, "thorough:")
		}
		if probes[v] == 0 {
			zero = append(zero, v)
		}
	}
	fmt.Printf("%s: %d runs (%d non-trivial, %d distinct), %d steps, %d switches, %.1fs simulated, faults=%v, known findings hit=%d, violations=%d, %.1fs wall\n",
		a.Prop, g.runs, g.nontrivial, distinct, g.steps, g.switches, float64(g.simNs)/1e9, faults, nknown, nviol, wall)
	if len(zero) > 0 {
		fmt.Printf("warning: probes never hit in this run: %v\n", zero)
	}
	if verdicts["stepcap"] > 0 {
		fmt.Printf("note: %d runs hit the step cap (inconclusive, not counted as violations)\n", verdicts["stepcap"])
	}
	return exit
}

func worldNames(ws []*World) []string {
	var out []string
	for _, w := range ws {
		out = append(out, w.Name)
	}
	return out
}

func tail(s string, n int) string {
	if len(s) <= n {
		return s
	}
	return "..." + s[len(s)-n:]
}

// ExpectedProbes lists, per world, the probes a thorough run is expected to hit.
var ExpectedProbes = map[string][]string{}

func probeList(ws []*World, prop string) []string {
	var out []string
	for _, w := range ws {
		out = append(out, ExpectedProbes[w.Name+"/"+prop]...)
		out = append(out, ExpectedProbes[w.Name]...)
	}
	return out
}

func componentsReal(ws []*World) []string {
	if ws[0].Concurrent {
		return []string{"every juniper function (source-rewritten only at synchronisation operations)", "Go channels and blocking select", "runtime timers on synctest's fake clock", "context", "errgroup logic (rewritten)", "reflect.Select blocking path"}
	}
	return []string{"every juniper function, unmodified (read-only verif-tagged accessors where noted)"}
}

func componentsSim(ws []*World) []string {
	if ws[0].Concurrent {
		return []string{"goroutine scheduling (token-passing scheduler, seeded tape)", "select arm choice", "sync.Mutex/RWMutex/Cond/WaitGroup/Once stand-ins", "sync/atomic wrappers (yield + real op)", "clock (testing/synctest)", "math/rand global source", "runtime.GOMAXPROCS", "all caller-side parties (sources, callbacks, consumers, cancellers)"}
	}
	return []string{"caller-side parties (mutators, iterator holders) scripted from the tape", "reference model"}
}

func assumptions(ws []*World) []string {
	if ws[0].Concurrent {
		return []string{
			"interleavings are explored at synchronisation operations only (complete for data-race-free code); plain-memory races inside a step are invisible",
			"timer semantics are those of Go >= 1.23 (synctest refuses asynctimerchan=1)",
			"sync stand-ins follow the documented sync semantics; waiter choice is a superset of the runtime's",
			"sampling, not enumeration: a clean batch is evidence, not proof",
		}
	}
	return []string{"sampling of operation histories, not enumeration", "reference model written independently of juniper"}
}

// replayDir is where replay files go: <root>/replays, or $VERIF_REPLAY_DIR when set (scratch runs
// against changed trees - several of them may be going on at once - keep their replay files apart).
func replayDir(root string) string {
	if d := os.Getenv("VERIF_REPLAY_DIR"); d != "" {
		return d
	}
	return filepath.Join(root, "replays")
}
