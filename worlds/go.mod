module verifworlds

go 1.26.8

require (
	github.com/anishathalye/porcupine v1.3.0
	github.com/bradenaw/juniper v0.0.0
	verifsim v0.0.0
)

require golang.org/x/sync v0.0.0-20210220032951-036812b2e83c // indirect

replace github.com/bradenaw/juniper => /repo

replace verifsim => /verif/sim
