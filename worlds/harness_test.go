package worlds

import (
	"flag"
	"fmt"
	"os"
	"sort"
	"testing"
)

var (
	fMode    = flag.String("mode", "", "worker | coord | replay | list")
	fWorld   = flag.String("world", "", "world name")
	fProp    = flag.String("prop", "", "property id")
	fTier    = flag.String("tier", "quick", "quick | thorough")
	fSeed    = flag.Uint64("seed", 1, "VERIF_SEED")
	fWorker  = flag.Int("worker", 0, "worker index")
	fWorkers = flag.Int("workers", 1, "number of workers")
	fSeconds = flag.Float64("seconds", 10, "wall-clock budget")
	fMaxRuns = flag.Int("maxruns", 0, "maximum number of runs per worker (0 = by time)")
	fOut     = flag.String("out", "", "worker result file")
	fFile    = flag.String("file", "", "replay file")
	fRoot    = flag.String("root", "/verif", "verif root")
	fQuiet   = flag.Bool("quiet", false, "replay: do not print the trace")
	fLevel   = flag.String("level", "exploration", "evidence level")
)

// TestHarness is the single entry point: the binary is a `go test -c` binary only because
// testing/synctest needs a *testing.T.
func TestHarness(t *testing.T) {
	theT = t
	code := 0
	switch *fMode {
	case "":
		t.Skip("no -mode given")
		return
	case "list":
		var names []string
		for n := range registry {
			names = append(names, n)
		}
		sort.Strings(names)
		for _, n := range names {
			fmt.Println(n, registry[n].Props)
		}
	case "worker":
		code = RunWorker(WorkerArgs{Root: *fRoot, World: *fWorld, Prop: *fProp, Tier: *fTier, Seed: *fSeed, Worker: *fWorker, Workers: *fWorkers, Seconds: *fSeconds, MaxRuns: *fMaxRuns, Out: *fOut})
	case "replay":
		code = RunReplay(*fFile, *fQuiet)
	case "coord":
		code = RunCoord(CoordArgs{Root: *fRoot, Prop: *fProp, Tier: *fTier, Seed: *fSeed, Workers: *fWorkers, Seconds: *fSeconds, MaxRuns: *fMaxRuns, Binary: os.Args[0], Level: *fLevel})
	default:
		fmt.Fprintln(os.Stderr, "unknown mode", *fMode)
		code = 2
	}
	os.Stdout.Sync()
	os.Exit(code)
}
