// Package race holds the one world in which steps are NOT serialised: C01's last sentence is a
// race-freedom claim, so the chosen goroutines are released together by one barrier, with no
// ordering among them, under the Go race detector (this binary is built with -race from the
// unrewritten working tree). A race report ends the worker with exit code 66; the coordinator maps
// it to a violation whose replay is the run index (the run is a pure function of the seed; the
// race detector reports happens-before races independently of the actual timing).
package race

import (
	"encoding/json"
	"flag"
	"fmt"
	"os"
	"os/exec"
	"path/filepath"
	"strconv"
	"strings"
	"sync"
	"testing"
	"time"

	"github.com/bradenaw/juniper/container/tree"
	"github.com/bradenaw/juniper/xsort"

	"verifsim/sim"
)

var (
	fMode    = flag.String("mode", "", "coord | worker | replay")
	fSeed    = flag.Uint64("seed", 1, "VERIF_SEED")
	fSeconds = flag.Float64("seconds", 5, "budget")
	fWorkers = flag.Int("workers", 4, "workers")
	fWorker  = flag.Int("worker", 0, "worker index")
	fOnly    = flag.Int("only", -1, "run only this run index")
	fOut     = flag.String("out", "", "status/result file")
	fRoot    = flag.String("root", "/verif", "verif root")
	fFile    = flag.String("file", "", "replay file")
	fTier    = flag.String("tier", "quick", "tier")
)

type status struct {
	Run      int    `json:"run"`
	Runs     int    `json:"runs"`
	Ops      int    `json:"parallel_ops"`
	Viol     string `json:"violation,omitempty"`
	Sig      string `json:"signature,omitempty"`
	Shapes   int    `json:"distinct_shapes"`
	Finished bool   `json:"finished"`
}

func runSeed(seed uint64, idx int) uint64 { return sim.Mix(seed, sim.MixString("treerace"), uint64(idx)) }

// oneRun executes run idx; it returns a description of an oracle failure ("" if none) and the
// number of operations released in parallel.
func oneRun(seed uint64, idx int, log bool) (sig string, msg string, nops int, shapeH uint64) {
	// a panic of the library (in the sequential set-up or in a released goroutine) is a violation of
	// C01 in its own right ("each call returns what an ideal sorted map returns"), not tooling trouble
	defer func() {
		if p := recover(); p != nil {
			sig, msg = "race/panic", fmt.Sprintf("the library panicked: %v", p)
		}
	}()
	var gpanic atomicString
	t := sim.NewGenTape(runSeed(seed, idx))
	nkeys := []int{40, 5, 16, 17, 130, 300, 700}[t.Choose(7, "nkeys")]
	useCmp := t.Choose(2, "cmp") == 1
	reversed := t.Choose(3, "reversed") == 2
	less := func(a, b int) bool { return a < b }
	if reversed {
		less = func(a, b int) bool { return a > b }
	}
	var m tree.Map[int, int]
	if useCmp {
		m = tree.NewMapCmp[int, int](xsort.LessCompare(less))
	} else {
		m = tree.NewMap[int, int](less)
	}
	model := map[int]int{}
	// fill in a tape-chosen order
	order := t.Choose(3, "fill")
	for i := 0; i < nkeys; i++ {
		k := i
		switch order {
		case 1:
			k = nkeys - 1 - i
		case 2:
			k = (i * 7919) % nkeys
		}
		m.Put(k*2, k)
		model[k*2] = k
	}
	// a few deletions so that the tree is not freshly built
	nd := t.Choose(nkeys/3+1, "deletes")
	for i := 0; i < nd; i++ {
		k := 2 * t.Choose(nkeys, "del-key")
		m.Delete(k)
		delete(model, k)
	}
	var present []int
	for k := range model {
		present = append(present, k)
	}
	// sort for determinism
	for i := 1; i < len(present); i++ {
		for j := i; j > 0 && present[j-1] > present[j]; j-- {
			present[j-1], present[j] = present[j], present[j-1]
		}
	}
	if len(present) == 0 {
		return "", "", 0, 0
	}
	g := 2 + t.Choose(5, "goroutines")
	type op struct {
		put  bool
		key  int
		val  int
		cont bool
		// a bounded Range / RangeReverse that yields only keys nobody writes: it starts at key, runs
		// over at most n entries in the map's order, lb / ub choose the bound kinds; want is filled in
		// once the written keys are known
		edge   int // 1 First, 2 Last, 3 Len: reads that involve no written key (checked below)
		rng    bool
		rev    bool
		n      int
		lb, ub int
		lower  tree.Bound[int]
		upper  tree.Bound[int]
		want   []int
	}
	plans := make([][]op, g)
	written := map[int]int{}
	ops := 0
	copies := make([]tree.Map[int, int], g)
	for i := range plans {
		copies[i] = m // copies of the Map value denote the same collection
		n := 1 + t.Choose(12, "nops")
		writer := i == 0 || t.Choose(2, "writer") == 1
		for j := 0; j < n; j++ {
			k := present[t.Choose(len(present), "key")]
			if writer && t.Choose(3, "put?") != 0 {
				if _, taken := written[k]; taken {
					continue
				}
				v := 100000 + i*1000 + j
				written[k] = v
				plans[i] = append(plans[i], op{put: true, key: k, val: v})
			} else if e := t.Choose(12, "edge?"); e >= 9 {
				plans[i] = append(plans[i], op{edge: e - 8})
			} else if t.Choose(4, "range?") == 3 {
				plans[i] = append(plans[i], op{key: k, rng: true, rev: t.Choose(2, "rev") == 1, n: 1 + t.Choose(6, "range-len"),
					lb: t.Choose(2, "lower-kind"), ub: t.Choose(2, "upper-kind")})
			} else {
				plans[i] = append(plans[i], op{key: k, cont: t.Choose(2, "contains") == 1})
			}
			ops++
		}
	}
	// readers must read OTHER keys: drop reads of keys that some goroutine writes; a range is cut
	// to the run of unwritten keys starting at its first key, so that it yields only other keys - the
	// entry just beyond either bound may well be one that is being written
	inOrder := append([]int(nil), present...) // in the map's order
	if reversed {
		for a, b := 0, len(inOrder)-1; a < b; a, b = a+1, b-1 {
			inOrder[a], inOrder[b] = inOrder[b], inOrder[a]
		}
	}
	pos := map[int]int{}
	for i, k := range inOrder {
		pos[k] = i
	}
	for i := range plans {
		var keep []op
		for _, o := range plans[i] {
			if !o.put && o.edge == 0 {
				if _, w := written[o.key]; w {
					continue
				}
			}
			if o.edge == 1 || o.edge == 2 {
				// First / Last hand out the value of the lowest / highest key: a read of another key
				// only if nobody writes that one
				o.key = inOrder[0]
				if o.edge == 2 {
					o.key = inOrder[len(inOrder)-1]
				}
				if _, w := written[o.key]; w {
					continue
				}
			}
			if o.rng {
				p := pos[o.key]
				e := p
				for e < len(inOrder) && e-p < o.n {
					if _, w := written[inOrder[e]]; w {
						break
					}
					e++
				}
				o.want = inOrder[p:e]
				o.lower, o.upper = tree.Included(inOrder[p]), tree.Included(inOrder[e-1])
				if o.lb == 1 {
					if p > 0 {
						o.lower = tree.Excluded(inOrder[p-1])
					} else {
						o.lower = tree.Unbounded[int]()
					}
				}
				if o.ub == 1 {
					if e < len(inOrder) {
						o.upper = tree.Excluded(inOrder[e])
					} else {
						o.upper = tree.Unbounded[int]()
					}
				}
			}
			keep = append(keep, o)
		}
		plans[i] = keep
	}
	if log {
		fmt.Printf("run %d: %d keys (%d present), %d goroutines, plans=%v\n", idx, nkeys, len(present), g, plans)
	}
	type res struct {
		key, val int
		ok       bool
		cont     bool
	}
	rangeBad := make([]string, g)
	results := make([][]res, g)
	start := make(chan struct{})
	var wg sync.WaitGroup
	for i := range plans {
		i := i
		wg.Add(1)
		go func() {
			defer wg.Done()
			defer func() {
				if p := recover(); p != nil {
					gpanic.set(fmt.Sprint(p))
				}
			}()
			<-start
			mm := copies[i]
			for _, o := range plans[i] {
				switch {
				case o.put:
					mm.Put(o.key, o.val)
				case o.edge == 3:
					if l := mm.Len(); l != len(model) {
						rangeBad[i] = fmt.Sprintf("a concurrent Len returned %d while only present keys were being overwritten; the map holds %d", l, len(model))
					}
				case o.edge != 0:
					var k, v int
					if o.edge == 1 {
						k, v = mm.First()
					} else {
						k, v = mm.Last()
					}
					if k != o.key || v != model[o.key] {
						rangeBad[i] = fmt.Sprintf("a concurrent First/Last (edge=%d) returned (%d, %d); the entry at that end, which nobody writes, is (%d, %d)", o.edge, k, v, o.key, model[o.key])
					}
				case o.rng:
					it := mm.Range(o.lower, o.upper)
					if o.rev {
						it = mm.RangeReverse(o.lower, o.upper)
					}
					var got []int
					for len(got) <= len(o.want)+2 {
						kv, ok := it.Next()
						if !ok {
							break
						}
						got = append(got, kv.Key)
						if kv.Value != model[kv.Key] {
							rangeBad[i] = fmt.Sprintf("a concurrent bounded range starting at key %d (rev=%v) yielded (%d, %d); that key is not being written and holds %d", o.key, o.rev, kv.Key, kv.Value, model[kv.Key])
						}
					}
					want := o.want
					if o.rev {
						want = nil
						for a := len(o.want) - 1; a >= 0; a-- {
							want = append(want, o.want[a])
						}
					}
					if fmt.Sprint(got) != fmt.Sprint(want) && rangeBad[i] == "" {
						rangeBad[i] = fmt.Sprintf("a concurrent bounded range (rev=%v) over unwritten keys yielded keys %v, expected %v", o.rev, got, want)
					}
				case o.cont:
					results[i] = append(results[i], res{o.key, 0, mm.Contains(o.key), true})
				default:
					results[i] = append(results[i], res{o.key, mm.Get(o.key), true, false})
				}
			}
		}()
	}
	close(start)
	wg.Wait()
	if p := gpanic.get(); p != "" {
		return "race/panic", "a released goroutine panicked inside the library: " + p, ops, 0
	}
	for k, v := range written {
		model[k] = v
	}
	shape := sim.Mix(uint64(nkeys), uint64(g), uint64(len(written)), uint64(order))
	if m.Len() != len(model) {
		return "race/len-changed", fmt.Sprintf("Len is %d after the parallel Puts to present keys, expected %d", m.Len(), len(model)), ops, shape
	}
	for k, v := range model {
		if got := m.Get(k); got != v || !m.Contains(k) {
			return "race/put-lost", fmt.Sprintf("after the parallel phase Get(%d) = %d, expected %d (a Put did not take effect or disturbed another key)", k, got, v), ops, shape
		}
	}
	for i := range rangeBad {
		if rangeBad[i] != "" {
			return "race/range-wrong", rangeBad[i], ops, shape
		}
	}
	for i := range results {
		for _, r := range results[i] {
			want := model[r.key] // not written in the parallel phase, so unchanged
			if !r.ok || (!r.cont && r.val != want) {
				return "race/read-wrong", fmt.Sprintf("a concurrent read of key %d (not being written) returned (%d, %v), expected %d", r.key, r.val, r.ok, want), ops, shape
			}
		}
	}
	return "", "", ops, shape
}

type atomicString struct {
	mu sync.Mutex
	s  string
}

func (a *atomicString) set(s string) { a.mu.Lock(); a.s = s; a.mu.Unlock() }
func (a *atomicString) get() string  { a.mu.Lock(); defer a.mu.Unlock(); return a.s }

func TestRace(t *testing.T) {
	code := 0
	switch *fMode {
	case "":
		t.Skip("no -mode")
	case "worker":
		code = worker()
	case "coord":
		code = coord()
	case "replay":
		code = replay()
	}
	os.Stdout.Sync()
	os.Exit(code)
}

func writeStatus(st *status) {
	b, _ := json.Marshal(st)
	tmp := *fOut + ".tmp"
	os.WriteFile(tmp, b, 0o644)
	os.Rename(tmp, *fOut)
}

func worker() int {
	st := &status{}
	shapes := map[uint64]struct{}{}
	if *fOnly >= 0 {
		st.Run = *fOnly
		writeStatus(st)
		sig, msg, _, _ := oneRun(*fSeed, *fOnly, true)
		if sig != "" {
			fmt.Printf("ORACLE %s: %s\n", sig, msg)
			return 1
		}
		fmt.Println("run satisfied the oracle; no race reported")
		return 0
	}
	deadline := time.Now().Add(time.Duration(*fSeconds * float64(time.Second)))
	for idx := *fWorker; time.Now().Before(deadline); idx += *fWorkers {
		st.Run = idx
		writeStatus(st) // names the run that is executing if a race report kills the process
		sig, msg, ops, shape := oneRun(*fSeed, idx, false)
		st.Runs++
		st.Ops += ops
		shapes[shape] = struct{}{}
		st.Shapes = len(shapes)
		if sig != "" {
			st.Sig, st.Viol = sig, msg
			writeStatus(st)
			return 1
		}
	}
	st.Finished = true
	writeStatus(st)
	return 0
}

type replayFile struct {
	Property  string `json:"property"`
	World     string `json:"world"`
	Seed      uint64 `json:"verif_seed"`
	RunIndex  int    `json:"run_index"`
	Signature string `json:"signature"`
	Message   string `json:"message"`
	RaceLog   string `json:"race_report,omitempty"`
}

func env() []string {
	return append(os.Environ(), "GORACE=halt_on_error=1 exitcode=66")
}

// findRun re-executes run indices one at a time from `from` until the failing one is found.
func findRun(from, workers, worker int) (int, string, string) {
	for idx := from; idx < from+40*workers; idx += workers {
		cmd := exec.Command(os.Args[0], "-test.run=^TestRace$", "-test.timeout=0", "-mode=worker", "-only="+strconv.Itoa(idx), "-seed="+strconv.FormatUint(*fSeed, 10), "-out="+*fOut+".find")
		cmd.Env = env()
		out, err := cmd.CombinedOutput()
		if err != nil {
			code := 2
			if ee, ok := err.(*exec.ExitError); ok {
				code = ee.ExitCode()
			}
			if code == 66 {
				return idx, "race/data-race", raceSummary(string(out))
			}
			if code == 1 {
				for _, l := range strings.Split(string(out), "\n") {
					if strings.HasPrefix(l, "ORACLE ") {
						parts := strings.SplitN(strings.TrimPrefix(l, "ORACLE "), ": ", 2)
						return idx, parts[0], parts[1]
					}
				}
			}
		}
	}
	return -1, "", ""
}

func raceSummary(out string) string {
	i := strings.Index(out, "WARNING: DATA RACE")
	if i < 0 {
		return out
	}
	s := out[i:]
	if len(s) > 2500 {
		s = s[:2500]
	}
	return s
}

func coord() int {
	tmp, err := os.MkdirTemp(filepath.Join(*fRoot, ".cache"), "race-")
	if err != nil {
		fmt.Fprintln(os.Stderr, err)
		return 2
	}
	defer os.RemoveAll(tmp)
	type job struct {
		cmd  *exec.Cmd
		file string
		out  *strings.Builder
	}
	var jobs []job
	for k := 0; k < *fWorkers; k++ {
		f := filepath.Join(tmp, fmt.Sprintf("w%d.json", k))
		cmd := exec.Command(os.Args[0], "-test.run=^TestRace$", "-test.timeout=0", "-mode=worker", "-seed="+strconv.FormatUint(*fSeed, 10), "-seconds="+strconv.FormatFloat(*fSeconds, 'f', 1, 64), "-workers="+strconv.Itoa(*fWorkers), "-worker="+strconv.Itoa(k), "-out="+f)
		cmd.Env = env()
		sb := &strings.Builder{}
		cmd.Stdout, cmd.Stderr = sb, sb
		if err := cmd.Start(); err != nil {
			fmt.Fprintln(os.Stderr, err)
			return 2
		}
		jobs = append(jobs, job{cmd, f, sb})
	}
	total := status{}
	exit := 0
	for k, j := range jobs {
		err := j.cmd.Wait()
		var st status
		if b, e := os.ReadFile(j.file); e == nil {
			json.Unmarshal(b, &st)
		}
		total.Runs += st.Runs
		total.Ops += st.Ops
		if st.Shapes > total.Shapes {
			total.Shapes = st.Shapes
		}
		if err == nil {
			continue
		}
		code := 2
		if ee, ok := err.(*exec.ExitError); ok {
			code = ee.ExitCode()
		}
		if code != 66 && code != 1 {
			fmt.Fprintf(os.Stderr, "race worker failed (exit %d): tooling trouble, not a violation\n%s\n", code, j.out.String())
			return 2
		}
		*fOut = filepath.Join(tmp, "find")
		idx, sig, msg := findRun(st.Run, *fWorkers, k)
		if idx < 0 {
			idx, sig, msg = findRun(k, *fWorkers, k)
		}
		if idx < 0 {
			fmt.Fprintf(os.Stderr, "a race worker reported a failure that could not be reproduced run by run: tooling trouble\n%s\n", j.out.String())
			return 2
		}
		rf := replayFile{Property: "C01", World: "treerace", Seed: *fSeed, RunIndex: idx, Signature: sig, Message: msg}
		os.MkdirAll(replayDir(*fRoot), 0o755)
		path := filepath.Join(replayDir(*fRoot), fmt.Sprintf("C01-%s-%d-%d.json", strings.ReplaceAll(sig, "/", "_"), *fSeed, idx))
		b, _ := json.MarshalIndent(rf, "", " ")
		os.WriteFile(path, b, 0o644)
		if exit == 0 {
			fmt.Printf("VIOLATION property=C01 replay=%s\n  signature: %s\n  %s\n", path, sig, strings.ReplaceAll(msg, "\n", "\n  "))
		}
		exit = 1
	}
	extra := map[string]any{"world": "treerace", "runs": total.Runs, "operations_released_in_parallel": total.Ops, "distinct_configurations_per_worker_max": total.Shapes, "race_detector": true, "note": "goroutines released together by one barrier; not serialised by the simulator"}
	b, _ := json.Marshal(extra)
	os.WriteFile(filepath.Join(*fRoot, ".cache", "extra-C01.json"), b, 0o644)
	fmt.Printf("C01 (race clause): %d runs, %d operations released in parallel under the race detector, violations=%d\n", total.Runs, total.Ops, exit)
	return exit
}

func replay() int {
	b, err := os.ReadFile(*fFile)
	if err != nil {
		fmt.Fprintln(os.Stderr, err)
		return 2
	}
	var rf replayFile
	if err := json.Unmarshal(b, &rf); err != nil {
		fmt.Fprintln(os.Stderr, err)
		return 2
	}
	cmd := exec.Command(os.Args[0], "-test.run=^TestRace$", "-test.timeout=0", "-mode=worker", "-only="+strconv.Itoa(rf.RunIndex), "-seed="+strconv.FormatUint(rf.Seed, 10), "-out="+filepath.Join(os.TempDir(), "race-replay.json"))
	cmd.Env = env()
	out, err := cmd.CombinedOutput()
	fmt.Print(string(out))
	if err != nil {
		fmt.Printf("REPRODUCED property=C01 signature=%s\n", rf.Signature)
		return 1
	}
	fmt.Println("NOT REPRODUCED")
	return 0
}

// replayDir is where replay files go: <root>/replays, or $VERIF_REPLAY_DIR when set (scratch runs
// against changed trees - several of them may be going on at once - keep their replay files apart).
func replayDir(root string) string {
	if d := os.Getenv("VERIF_REPLAY_DIR"); d != "" {
		return d
	}
	return filepath.Join(root, "replays")
}
