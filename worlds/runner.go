// Package worlds holds the simulated worlds (parties + oracles + reference models), the runner
// that executes one seeded run, the minimiser, the worker loop and the coordinator that writes the
// evidence files.
package worlds

import (
	"fmt"
	"sort"
	"strings"
	"testing"
	"testing/synctest"
	"time"

	"verifsim/sim"
)

// World is one simulated world.
type World struct {
	Name       string
	Props      []string // properties whose oracles live in this world
	Concurrent bool     // needs the scheduler + bubble
	Timed      bool     // stalls / late timers may be injected
	MaxSteps   int
	TaskStalls bool // single tasks may be descheduled for a while (the world's timing oracles cope)
	Episodes   bool // the world can be run twice in one simulated process (see RunOne)
	Run        func(r *R)
}

var registry = map[string]*World{}

func Register(w *World) { registry[w.Name] = w }

// WorldsFor returns the worlds that decide property id, sorted by name.
func WorldsFor(prop string) []*World {
	var out []*World
	for _, w := range registry {
		for _, p := range w.Props {
			if p == prop {
				out = append(out, w)
			}
		}
	}
	sort.Slice(out, func(i, j int) bool { return out[i].Name < out[j].Name })
	return out
}

// Violation is one oracle failure.
type Violation struct {
	Prop string `json:"property"`
	Sig  string `json:"signature"`
	Msg  string `json:"message"`
}

// R is the context of one run.
type R struct {
	World  *World
	T      *sim.Tape
	Focus  string
	Cfg    sim.Config
	Trace  bool
	Tier   string
	viol   *Violation
	Probes map[string]int
	Faults map[string]int
	hist   uint64
	Log    []string
	Episode int // 0 for the first episode of a run, 1 for the second
	// OnStuck, if set, is called (on the scheduler's goroutine, everything else blocked) when the run
	// got stuck with the main task not finished.
	OnStuck func(report []string)
	// PostRun, if set, runs after the bubble has ended (outside the simulator), e.g. for porcupine.
	PostRun func()
	// Ops counts harness-level operations (container worlds use it as "steps").
	Ops int
	// States lets container worlds report distinct abstract states reached.
	States map[uint64]struct{}
}

func (r *R) Choose(n int, kind string) int { return r.T.Choose(n, kind) }

// Bool is true with probability num/den; false is the simple value.
func (r *R) Bool(num, den int, kind string) bool { return r.T.Bool(num, den, kind) }

// Violate records an oracle failure (the first one of the run wins).
func (r *R) Violate(prop, sig, format string, args ...any) {
	if r.viol != nil {
		return
	}
	r.viol = &Violation{Prop: prop, Sig: sig, Msg: fmt.Sprintf(format, args...)}
	if r.Trace {
		r.Log = append(r.Log, "VIOLATION "+prop+" "+sig+": "+r.viol.Msg)
	}
}

func (r *R) Failed() bool      { return r.viol != nil }
func (r *R) Probe(name string) { r.Probes[name]++ }
func (r *R) Fault(kind string) { r.Faults[kind]++ }

// State records an abstract state (container worlds: the distinct_nontrivial measure).
func (r *R) State(h uint64) {
	if r.States == nil {
		r.States = map[uint64]struct{}{}
	}
	r.States[h] = struct{}{}
}

// Hist folds harness-visible events into the run's history hash.
func (r *R) Hist(parts ...any) {
	sim.NoteProgress()
	for _, p := range parts {
		var x uint64
		switch v := p.(type) {
		case int:
			x = uint64(v)
		case uint64:
			x = v
		case string:
			x = sim.MixString(v)
		case bool:
			if v {
				x = 1
			}
		case error:
			if v != nil {
				x = sim.MixString(v.Error())
			}
		case nil:
		default:
			x = sim.MixString(fmt.Sprint(v))
		}
		r.hist = (r.hist ^ x) * 1099511628211
	}
}

// Logf adds a line to the run's log; only kept when tracing (replay, samples).
func (r *R) Logf(format string, args ...any) {
	if !r.Trace {
		return
	}
	prefix := ""
	if r.World.Concurrent && sim.Active() && !sim.Tearing() {
		prefix = fmt.Sprintf("[t=%v] ", sim.Now())
	}
	r.Log = append(r.Log, prefix+fmt.Sprintf(format, args...))
}

// Result is what one run produced.
type Result struct {
	Viol      *Violation
	Hash      uint64
	SchedHash uint64
	Steps     int
	Switches  int
	SimTime   time.Duration
	Verdict   string
	Probes    map[string]int
	Faults    map[string]int
	Tape      []int
	Kinds     []sim.Choice
	Log       []string
	Sched     []sim.TraceEntry
	Strategy  int
	Pairs     map[string]struct{}
	States    map[uint64]struct{}
	LeakPanic string
	outside   bool // a simulator primitive was reached outside a simulation
}

var theT *testing.T

// RunOne executes one run of w on the given tape.
func RunOne(w *World, tape *sim.Tape, focus string, tier string, trace bool) (res *Result) {
	res = runOne(w, tape, focus, tier, trace, w.Concurrent)
	if res.outside {
		// A world that normally runs without the scheduler (single-threaded containers) has reached
		// a synchronisation primitive inside the library: the code under test now uses sync, atomic
		// or friends. Run it again under the scheduler, on a tape derived from the choices made so
		// far (so that the whole thing stays a function of the original tape, which is what the
		// replay file records).
		vals := tape.Values()
		parts := make([]uint64, 0, len(vals)+1)
		parts = append(parts, 0x5eed)
		for _, v := range vals {
			parts = append(parts, uint64(v))
		}
		again := runOne(w, sim.NewGenTape(sim.Mix(parts...)), focus, tier, trace, true)
		again.Tape, again.Kinds = vals, tape.Rec
		again.Probes["ran-under-scheduler-after-reaching-a-sync-primitive"]++
		return again
	}
	return res
}

func runOne(w *World, tape *sim.Tape, focus string, tier string, trace bool, scheduled bool) (res *Result) {
	r := &R{World: w, T: tape, Focus: focus, Trace: trace, Tier: tier, Probes: map[string]int{}, Faults: map[string]int{}, hist: 14695981039346656037}
	res = &Result{Probes: r.Probes, Faults: r.Faults}
	if !scheduled {
		func() {
			defer func() {
				if p := recover(); p != nil {
					if _, ok := p.(sim.OutsideSim); ok {
						res.outside = true
						return
					}
					r.Violate(focus, "harness-panic", "panic escaped the world: %v", p)
				}
			}()
			w.Run(r)
		}()
		res.Steps = r.Ops
		res.Verdict = "done"
	} else {
		cfg := sim.Config{Trace: trace, MaxSteps: w.MaxSteps + 3000, SpinLimit: 2500}
		if w.Episodes {
			cfg.MaxSteps += w.MaxSteps
		}
		if !w.Concurrent {
			cfg.MaxSteps = 1 << 22 // a whole container history, every synchronisation operation a step
		}
		cfg.Strategy = tape.Choose(sim.NumStrategies, "strategy")
		cfg.PostYield = tape.Choose(3, "postyield") == 2
		if cfg.Strategy == sim.StratPCT {
			cfg.PCTDepth = 1 + tape.Choose(3, "pct-depth")
			cfg.PCTSpan = 40 + 40*tape.Choose(4, "pct-span")
		}
		cfg.GOMAXPROCS = 1 + tape.Choose(4, "gomaxprocs")
		if w.Timed {
			cfg.StallPer1k = []int{0, 0, 0, 15, 80}[tape.Choose(5, "stall-rate")]
			cfg.LatePer1k = []int{0, 0, 0, 250}[tape.Choose(4, "late-rate")]
			cfg.AsyncTimerChan = tape.Choose(3, "timerchan") == 2
			cfg.ClockTickPer1k = []int{0, 0, 0, 0, 500}[tape.Choose(5, "clock-tick-rate")]
		}
		if w.TaskStalls {
			cfg.TaskStallPer1k = []int{0, 0, 0, 25}[tape.Choose(4, "task-stall-rate")]
		}
		r.Cfg = cfg
		res.Strategy = cfg.Strategy
		var out *sim.Outcome
		func() {
			defer func() {
				if p := recover(); p != nil {
					res.LeakPanic = fmt.Sprint(p)
				}
			}()
			synctest.Test(theT, func(t *testing.T) {
				out = sim.Run(tape, cfg, func() {
					BeginEpisode(0)
					w.Run(r)
					// History: one run in four is two episodes of the world, one after the other in
					// the same simulated process. Whatever the library keeps between uses of a
					// package - pooled objects, cached settings, package-level variables - is then
					// carried from the first into the second, which is judged like any other.
					if w.Episodes && !r.Failed() && r.Choose(4, "second-episode") == 3 {
						r.Probe("second-episode-in-same-process")
						r.Episode++
						BeginEpisode(1)
						w.Run(r)
					}
				}, nil)
			})
		}()
		if out != nil {
			res.Steps = out.Steps
			res.Switches = out.Switches
			res.SimTime = out.SimTime
			res.Verdict = out.Verdict
			res.Sched = out.Trace
			res.Pairs = out.SwitchPairs
			r.Hist(out.SchedHash)
			res.SchedHash = out.SchedHash
			if out.LateTimers > 0 {
				r.Faults["late_timer"] += out.LateTimers
			}
			if out.Stalls > 0 {
				r.Faults["stall"] += out.Stalls
			}
			if out.TaskStalls > 0 {
				r.Faults["task_stall"] += out.TaskStalls
			}
			if out.ClockTicks > 0 {
				r.Faults["clock_tick"] += out.ClockTicks
			}
			if len(out.Panics) > 0 {
				r.Violate(focus, "panic/"+panicSig(out.Panics[0]), "%s", out.Panics[0])
			}
			if out.Verdict == "livelock" && !r.Failed() {
				r.Violate(focus, "livelock/"+out.LivelockSite, "a call spins without ever blocking or finishing: %s has been the only runnable task for more than %d scheduling points without any observable progress, no timer is pending and every other task is blocked or finished, so nothing can change what it is waiting for", out.Livelock, cfg.SpinLimit)
			}
			if out.Verdict == "stuck" {
				if r.OnStuck != nil {
					r.OnStuck(out.StuckReport)
				}
				if !r.Failed() {
					r.Violate(focus, "stuck/"+stuckSig(out.StuckReport), "the run got stuck: nothing can run and no timer is pending, but the world has not finished:\n  %s", strings.Join(out.StuckReport, "\n  "))
				}
			}
		} else if res.LeakPanic != "" {
			res.Verdict = "harness-error"
		}
	}
	if r.PostRun != nil && r.viol == nil {
		r.PostRun()
	}
	res.Viol = r.viol
	res.Hash = r.hist
	res.Tape = tape.Values()
	res.Kinds = tape.Rec
	res.Log = r.Log
	res.States = r.States
	return res
}

// Hung is set once a run has failed to return; no further run may be started in this process.
var Hung bool

// HangLimit is the wall-clock time after which a single run is declared not to return.
var HangLimit = 40 * time.Second

// RunOneGuarded is RunOne with a wall-clock guard: a library call that neither returns nor reaches
// a synchronisation operation, a comparator, an instrumented source or a harness adaptor cannot be
// interrupted, but it can be noticed. The stuck goroutine is abandoned; the caller must end the
// process soon. ok=false means the run did not finish.
func RunOneGuarded(w *World, tape *sim.Tape, focus string, tier string, trace bool) (res *Result, ok bool) {
	done := make(chan *Result, 1)
	go func() { done <- RunOne(w, tape, focus, tier, trace) }()
	select {
	case res = <-done:
		return res, true
	case <-time.After(HangLimit):
		return nil, false
	}
}

// panicSig extracts a stable short signature from a panic report.
func panicSig(p string) string {
	// "panic in T3(name) at site: message\nstack"
	first := p
	if i := strings.Index(p, "\n"); i >= 0 {
		first = p[:i]
	}
	if i := strings.Index(first, " at "); i >= 0 {
		first = first[i+4:]
	}
	if len(first) > 80 {
		first = first[:80]
	}
	return strings.ReplaceAll(first, " ", "_")
}

func stuckSig(report []string) string {
	for _, l := range report {
		if i := strings.Index(l, "label="); i >= 0 && len(l) > i+6 {
			return l[i+6:]
		}
	}
	return "unknown"
}

// Minimise shrinks a failing tape while the same oracle with the same signature keeps firing.
func Minimise(w *World, focus, tier string, vals []int, want *Violation, budget time.Duration, maxExec int) ([]int, int) {
	deadline := time.Now().Add(budget)
	execs := 0
	expired := func() bool { return Hung || execs >= maxExec || time.Now().After(deadline) }
	same := func(cand []int) bool {
		if execs >= maxExec || time.Now().After(deadline) {
			return false
		}
		execs++
		if Hung {
			return false
		}
		res, finished := RunOneGuarded(w, sim.NewReplayTape(cand), focus, tier, false)
		if !finished {
			Hung = true // the process must wind down: a goroutine is stuck inside the library
			return false
		}
		return res.Viol != nil && res.Viol.Prop == want.Prop && res.Viol.Sig == want.Sig
	}
	best := append([]int(nil), vals...)
	// the run may not have consumed the whole tape; trailing zeros are implicit
	trim := func(v []int) []int {
		for len(v) > 0 && v[len(v)-1] == 0 {
			v = v[:len(v)-1]
		}
		return v
	}
	best = trim(best)
	improved := true
	for improved && !expired() {
		improved = false
		// 1. truncate the tail (binary search on length)
		for cut := len(best) / 2; cut >= 1; cut /= 2 {
			for len(best) > cut && !expired() {
				cand := trim(append([]int(nil), best[:len(best)-cut]...))
				if same(cand) {
					best = cand
					improved = true
				} else {
					break
				}
			}
		}
		// 2. delete blocks (delta-debugging style: from half the tape down to single choices)
		start := len(best) / 2
		if start < 8 {
			start = 8
		}
		for size := start; size >= 1; size /= 2 {
			for i := 0; i+size <= len(best) && !expired(); {
				cand := append(append([]int(nil), best[:i]...), best[i+size:]...)
				cand = trim(cand)
				if same(cand) {
					best = cand
					improved = true
				} else {
					i++
				}
			}
		}
		// 3. zero blocks
		for size := 8; size >= 1; size /= 2 {
			for i := 0; i+size <= len(best) && !expired(); i += size {
				allZero := true
				for _, v := range best[i : i+size] {
					if v != 0 {
						allZero = false
					}
				}
				if allZero {
					continue
				}
				cand := append([]int(nil), best...)
				for j := i; j < i+size; j++ {
					cand[j] = 0
				}
				cand = trim(cand)
				if same(cand) {
					best = cand
					improved = true
				}
			}
		}
		// 4. lower single values
		for i := 0; i < len(best) && !expired(); i++ {
			for best[i] > 0 && !expired() {
				cand := append([]int(nil), best...)
				if cand[i] > 1 && cand[i]/2 != cand[i] {
					cand[i] = cand[i] / 2
				} else {
					cand[i]--
				}
				cand = trim(cand)
				if len(cand) <= i {
					if same(cand) {
						best = cand
						improved = true
					}
					break
				}
				if same(cand) {
					best = cand
					improved = true
				} else {
					break
				}
			}
		}
	}
	return best, execs
}
