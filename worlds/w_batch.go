package worlds

import (
	"math"
	"fmt"

	"github.com/bradenaw/juniper/stream"

	"verifsim/context"
	"verifsim/sim"
	"verifsim/time"
)

// World `batch` (C11): a scripted source, stream.Batch / BatchFunc with its three internal
// goroutines, a consumer whose Next calls have live, expiring or cancelled contexts, and Close at
// a tape-chosen moment; all on the simulated clock.

func init() {
	Register(&World{Name: "batch", Episodes: true, Props: []string{"C11"}, Concurrent: true, Timed: true, MaxSteps: 6000, Run: batchWorld})
	ExpectedProbes["batch"] = []string{"maxwait-forever", "batchsize-huge", "long-source-abandoned", "source-hands-over-ready-items-without-looking-at-its-context", "underfilled-by-timer", "full-batch", "final-partial-batch", "close-with-producer-ahead", "next-cancelled-then-retried", "source-error-after-items", "close-before-any-next", "timer-flush-with-waiter"}
}

type batchStep struct {
	close   bool
	ctxKind int // 0 live, 1 cancelled by canceller after simulated time, 2 deadline, 3 pre-cancelled, 4 cancelled by canceller after spins
	ctxD    time.Duration
	pause   time.Duration
	ctx     *Ctx
}

func batchWorld(r *R) {
	unit := 10 * time.Millisecond
	n := r.Choose(9, "items")
	batchSize := 1 + r.Choose(5, "batchsize")
	switch r.Choose(16, "batchsize-edge") { // "batch by time only": a size no batch will ever reach
	case 14:
		batchSize = math.MaxInt
		r.Probe("batchsize-huge")
	case 15:
		batchSize = 1 << 60
		r.Probe("batchsize-huge")
	}
	maxWait := time.Duration(1+r.Choose(6, "maxwait")) * unit
	switch r.Choose(16, "maxwait-edge") { // edge classes: no waiting at all
	case 13:
		maxWait = math.MaxInt64 // "never hand out an underfilled batch before the source has ended"
		r.Probe("maxwait-forever")
	case 14:
		maxWait = 0
		r.Probe("maxwait-zero")
	case 15:
		maxWait = -unit
		r.Probe("maxwait-negative")
		if r.Choose(3, "maxwait-most-negative") == 2 {
			maxWait = math.MinInt64 // the other end of "no waiting at all"
		}
	}
	useFunc := r.Choose(3, "batchfunc") == 2
	slowFull := useFunc && r.Choose(2, "slowfull") == 1
	items := make([]int, n)
	for i := range items {
		items[i] = 1000 + i
	}
	src := NewSrc(r, "src", items)
	src.Delay = map[int]time.Duration{}
	for p := 0; p <= n; p++ {
		switch r.Choose(4, "delay") {
		case 2:
			src.Delay[p] = time.Duration(1+r.Choose(5, "delay-d")) * 7 * time.Millisecond
		case 3:
			src.Delay[p] = time.Duration(1+r.Choose(20, "delay-d")) * 7 * time.Millisecond
		}
	}
	var srcErr error
	if r.Choose(4, "srcerr") == 3 {
		// mostly a private error value; sometimes one the library also produces itself
		switch r.Choose(6, "srcerr-value") {
		case 4:
			srcErr = context.Canceled
		case 5:
			srcErr = context.DeadlineExceeded
		default:
			srcErr = NewErr("srcE")
		}
		src.Err = srcErr
		src.ErrAt = r.Choose(n+1, "srcerr-at")
	}
	// consumer script
	maxNext := n + 3
	var steps []batchStep
	closeAt := maxNext
	if r.Choose(3, "abandon") == 2 {
		closeAt = r.Choose(maxNext, "abandon-at")
	}
	// a source with far more items than the consumer will ever ask for, abandoned early: the
	// background work has to stop because of Close, not because the source ran dry
	longSrc := closeAt < maxNext && srcErr == nil && batchSize <= 5 && r.Choose(3, "long-source") == 2
	if longSrc {
		r.Probe("long-source-abandoned")
		for i := n; i < 4000; i++ {
			items = append(items, 1000+i)
		}
		src.Items = items
		src.DeadLimit = 300
	}
	if longSrc || r.Choose(3, "src-ready-blind") == 2 {
		src.ReadyBlind = true
		r.Probe("source-hands-over-ready-items-without-looking-at-its-context")
	}
	root := RootCtx(r)
	for i := 0; i < closeAt; i++ {
		st := batchStep{}
		switch r.Choose(8, "ctxkind") {
		case 4:
			st.ctxKind = 1
			st.ctxD = time.Duration(1+r.Choose(12, "ctx-d")) * 11 * time.Millisecond
		case 5:
			st.ctxKind = 2
			st.ctxD = time.Duration(1+r.Choose(12, "ctx-d")) * 11 * time.Millisecond
		case 6:
			st.ctxKind = 3
		case 7:
			st.ctxKind = 4
		}
		if r.Choose(3, "pause") == 2 {
			st.pause = time.Duration(1+r.Choose(15, "pause-d")) * 13 * time.Millisecond
		}
		steps = append(steps, st)
	}
	closePause := time.Duration(0)
	if r.Choose(2, "close-pause") == 1 {
		closePause = time.Duration(1+r.Choose(15, "pause-d")) * 13 * time.Millisecond
	}
	strictTiming := r.Cfg.StallPer1k == 0 && r.Cfg.LatePer1k == 0 && r.Cfg.ClockTickPer1k == 0
	// a run whose only disturbance is a clock that moves a few nanoseconds per reading is judged
	// like a strict one, a microsecond more generously
	tickOnly := r.Cfg.StallPer1k == 0 && r.Cfg.LatePer1k == 0 && r.Cfg.ClockTickPer1k > 0
	tickSlack := int64(0)
	if tickOnly {
		tickSlack = int64(time.Microsecond)
	}
	effWait := maxWait // what the timing oracles use: a negative wait is no wait
	if effWait < 0 {
		effWait = 0
	}
	if effWait > 1<<61 {
		effWait = 1 << 61 // (so that instant + effWait does not overflow)
	}
	r.Logf("config: items=%d batchSize=%d maxWait=%v func=%v srcErrAt=%d closeAfter=%d nexts strictTiming=%v", n, batchSize, maxWait, useFunc, src.ErrAt, closeAt, strictTiming)

	full := func(b []int) bool { return len(b) >= batchSize }
	var s stream.Stream[[]int]
	if useFunc {
		s = stream.BatchFunc[int](src, maxWait, func(b []int) bool {
			if slowFull {
				sim.Yield("full-callback")
			}
			return full(b)
		})
	} else {
		s = stream.Batch[int](src, maxWait, batchSize)
	}

	cs := &Calls{r: r}
	delivered := 0 // number of source items received in batches so far
	var lastDeliveredAt int64
	type keptBatch struct{ got, want []int }
	var kept []keptBatch
	postBatch := func() {}
	var terminal error
	consumerDone := false
	var closeCall *Call

	sim.GoNamed("consumer", func() {
		defer func() { consumerDone = true }()
		for i, st := range steps {
			if st.pause > 0 {
				sim.Sleep(st.pause, "consumer-pause")
			}
			var ctx *Ctx
			switch st.ctxKind {
			case 0:
				ctx = root
			case 1, 4:
				ctx = NewCtx(root, fmt.Sprintf("next%d", i))
				c, d, kind := ctx, st.ctxD, st.ctxKind
				sim.GoNamed(fmt.Sprintf("canceller%d", i), func() {
					if kind == 1 {
						sim.Sleep(d, "canceller-sleep")
					} else {
						Spin(int(d/(11*time.Millisecond)), "canceller-spin")
					}
					r.Fault("ctx_cancel_midcall")
					c.Cancel()
				})
			case 2:
				ctx = NewDeadlineCtx(root, fmt.Sprintf("next%d", i), st.ctxD)
				r.Fault("ctx_deadline")
			case 3:
				ctx = PreCancelled(root, fmt.Sprintf("next%d", i))
				r.Fault("ctx_precancelled")
			}
			postBatch() // the consumer's own writes to the batch it got last time
			postBatch = func() {}
			for _, kb := range kept {
				if kb.got != nil && fmt.Sprint(kb.got) != fmt.Sprint(kb.want) {
					r.Violate("C11", "delivered-batch-changed-later", "a batch that had been handed out as %v now reads %v", kb.want, kb.got)
					return
				}
			}
			c := cs.Begin("consumer", "Next", i, ctx)
			b, err := s.Next(ctx.C)
			cs.End(c, len(b), err == nil, err)
			r.Logf("        batch=%v", b)
			if terminal != nil {
				// after the end every further Next must report the same
				if err != terminal && !(isCtxErr(err) && ctx.Dead()) {
					r.Violate("C11", "not-sticky", "Next returned (%v, %v) after having reported %v", b, err, terminal)
				}
				continue
			}
			ownCtx := err != nil && ctx != root && ctx.Dead() && err == ctx.C.Err()
			switch {
			case ownCtx:
				// this call's own context ended (if the source failed with the same well-known value
				// the next call with a live context will say so again)
				r.Probe("next-cancelled-then-retried")
			case err == nil:
				if len(b) == 0 {
					r.Violate("C11", "empty-batch", "Next returned an empty batch")
					return
				}
				if !useFunc && len(b) > batchSize {
					r.Violate("C11", "oversized-batch", "Batch returned %d items, batchSize is %d", len(b), batchSize)
					return
				}
				for j, x := range b {
					if delivered+j >= len(items) || x != items[delivered+j] {
						r.Violate("C11", "not-a-prefix", "batch %v does not continue the source sequence at position %d (source %v)", b, delivered, items)
						return
					}
				}
				// The batch now belongs to the consumer: it may extend and overwrite it. Nothing the
				// library hands out later may be affected by that, and nothing it does later may
				// change what was handed out.
				kept = append(kept, keptBatch{got: b, want: append([]int(nil), b...)})
				if ownMode := r.Choose(3, "consumer-writes-batch"); ownMode != 0 {
					r.Probe("consumer-extends-its-batch")
					kb := &kept[len(kept)-1]
					postBatch = func() { // (once this batch has been judged)
						ext := append(b, -7, -8, -9) // into spare capacity, if there is any
						for q := range ext[len(b):] {
							ext[len(b)+q] = -7 - q
						}
						if ownMode == 2 {
							kb.got = nil // and scribbles over the batch itself
							for q := range b {
								b[q] = -100 - q
							}
						}
					}
				}
				first := delivered
				delivered += len(b)
				prevDeliveredAt := lastDeliveredAt
				lastDeliveredAt = c.RetAt
				sourceEnded := src.EndSeq != 0 && src.EndSeq < c.Ret
				if !full(b) && !sourceEnded {
					r.Probe("underfilled-by-timer")
					if c.RetAt < src.HandOver[first]+int64(effWait) {
						r.Violate("C11", "underfilled-too-early", "an underfilled batch %v was handed out at t=%v although its oldest item was handed over by the source at t=%v and maxWait is %v (source not ended)", b, time.Duration(c.RetAt), time.Duration(src.HandOver[first]), maxWait)
						return
					}
					if c.InvAt <= src.HandOver[first] {
						r.Probe("timer-flush-with-waiter")
					}
				} else if full(b) {
					r.Probe("full-batch")
				} else {
					r.Probe("final-partial-batch")
				}
				if strictTiming || tickOnly {
					// Handed to a waiting consumer rather than held back. The batch's clock starts when
					// the batcher takes its oldest item, which is the source's hand-over or, if the
					// batcher was still holding the previous batch, the moment that batch was taken;
					// once that item is maxWait old a waiting consumer gets the batch at once.
					started := src.HandOver[first]
					if prevDeliveredAt > started {
						started = prevDeliveredAt
					}
					if due := started + int64(effWait) + tickSlack; c.RetAt > c.InvAt+tickSlack && c.RetAt > due {
						r.Violate("C11", "held-back", "Next was invoked at t=%v; the oldest item of its batch %v was handed over at t=%v (previous batch taken at t=%v), so with maxWait=%v the batch was due at t=%v, but it was only delivered at t=%v", time.Duration(c.InvAt), b, time.Duration(src.HandOver[first]), time.Duration(prevDeliveredAt), maxWait, time.Duration(due), time.Duration(c.RetAt))
						return
					}
					from := c.InvAt
					if src.HandOver[first] > from {
						from = src.HandOver[first]
					}
					if c.RetAt > from+int64(effWait)+tickSlack {
						r.Violate("C11", "held-back", "Next was invoked at t=%v, the first item of its batch %v was handed over at t=%v, maxWait=%v, but the batch was only delivered at t=%v", time.Duration(c.InvAt), b, time.Duration(src.HandOver[first]), maxWait, time.Duration(c.RetAt))
						return
					}
				}
			case err == stream.End || (srcErr != nil && err == srcErr):
				terminal = err
				if err == stream.End && srcErr != nil && src.EndSeq != 0 {
					r.Violate("C11", "end-instead-of-error", "Next reported End although the source failed with %v", srcErr)
					return
				}
				if err == stream.End && src.EndSeq == 0 {
					r.Violate("C11", "end-before-source-end", "Next reported End although the source has not ended")
					return
				}
				if srcErr != nil && err == srcErr {
					r.Probe("source-error-after-items")
				}
				if delivered != src.Pos {
					r.Violate("C11", "items-lost-before-terminal", "Next reported %v after %d items, but the source had handed over %d items", err, delivered, src.Pos)
					return
				}
			case isCtxErr(err):
				if !ctx.Dead() {
					r.Violate("C11", "ctx-error-with-live-ctx", "Next returned %v although its context is live", err)
					return
				}
				r.Probe("next-cancelled-then-retried")
			default:
				r.Violate("C11", "wrong-error", "Next returned unexpected error %v (source error: %v)", err, srcErr)
				return
			}
		}
		if closePause > 0 {
			sim.Sleep(closePause, "close-pause")
		}
		c := cs.Begin("consumer", "Close", 0, nil)
		closeCall = c
		if len(steps) == 0 {
			r.Probe("close-before-any-next")
		}
		if src.Pos > delivered && terminal == nil {
			r.Probe("close-with-producer-ahead")
			r.Fault("close_midflight")
		}
		s.Close()
		cs.End(c, 0, true, nil)
		if src.DeadLimit > 0 && src.DeadPulls > src.DeadLimit {
			// (each further read after the cancellation is the outcome of a fair coin in the unchanged
			// library; 300 in a row do not happen)
			r.Violate("C11", "close/background-work-not-stopped", "Close was called with the producer at item %d of 4000; the source was then read %d more times with the cancelled background context before Close returned (the background work stops when the source runs dry, not because of Close)", delivered, src.DeadPulls)
			return
		}
		if len(src.Closed) != 1 {
			r.Violate("C11", "source-close-count", "after Close returned the source has been closed %d times", len(src.Closed))
			return
		}
	})

	sim.WaitStuck("batch-phase1")
	if r.Failed() {
		return
	}
	if len(src.Violations) > 0 {
		r.Violate("C11", "source-misuse/"+src.Violations[0], "the source observed: %v", src.Violations)
		return
	}
	if !consumerDone {
		for _, c := range cs.Pending() {
			switch c.Kind {
			case "Close":
				r.Violate("C11", "stuck/Close", "Close never returns: %v; live library goroutines: %s", c, taskNames(LibraryTasks()))
			case "Next":
				if c.Ctx.Dead() {
					r.Violate("C11", "stuck/Next/ctx-expired", "Next is still blocked although its context expired: %v", c)
				} else {
					r.Violate("C11", "stuck/Next", "Next with a live context never returns although the source is not blocked: %v (source pos=%d ended=%v); live library goroutines: %s", c, src.Pos, src.EndSeq != 0, taskNames(LibraryTasks()))
				}
			}
		}
		if !r.Failed() {
			r.Violate("C11", "stuck/consumer", "the consumer did not finish: %v", sim.TaskStates())
		}
		return
	}
	if lt := LibraryTasks(); len(lt) > 0 {
		// everything is quiescent and Close has returned: the background goroutines must be gone
		r.Violate("C11", "close-left-goroutines", "Close returned but background goroutines never finish: %s", taskNames(lt))
		return
	}
	if closeCall != nil && closeCall.Returned && src.LastNextRet > closeCall.Ret && src.NextCalls > 0 {
		// a source Next finishing after Close returned means background work was not stopped
		r.Violate("C11", "source-used-after-close", "the source's Next returned (#%d) after Close had returned (#%d)", src.LastNextRet, closeCall.Ret)
	}
}
