package worlds

import (
	"sort"
	"fmt"

	"github.com/bradenaw/juniper/xsync"

	"verifsim/sim"
	"verifsim/time"
	vsync "verifsim/sync"
)

// World `cond` (C16): waiters, signallers and a canceller around xsync.ContextCond. The Locker
// handed to the cond is the simulator's mutex wrapped so that "has released the lock inside Wait"
// is an observable event.

func init() {
	Register(&World{Name: "cond", Episodes: true, Props: []string{"C16"}, Concurrent: true, MaxSteps: 4000, Run: condWorld})
	ExpectedProbes["cond"] = []string{"two-waiters-in-window-at-signal", "signal-while-waiter-in-window", "broadcast-while-waiter-in-window", "wait-cancelled", "wait-woken-by-signal", "wait-woken-by-broadcast"}
}

// obsLocker is the Locker handed to the ContextCond: a mutex, or - in shared-lock runs - the read
// side of an RWMutex, which several waiters can hold at the same time (sync.Cond allows any Locker).
// It records who holds it.
type obsLocker struct {
	inner    interface{ Lock(); Unlock() }
	holders  map[*sim.Task]int
	onUnlock func(t *sim.Task)
}

func (l *obsLocker) Lock() {
	l.inner.Lock()
	l.holders[sim.Self()]++
}
func (l *obsLocker) Unlock() {
	t := sim.Self()
	l.holders[t]--
	l.inner.Unlock()
	if l.onUnlock != nil {
		l.onUnlock(t)
	}
}
func (l *obsLocker) heldBy(t *sim.Task) bool { return l.holders[t] > 0 }
func (l *obsLocker) owners() string {
	var out []string
	for t, n := range l.holders {
		if n > 0 {
			out = append(out, fmt.Sprint(t))
		}
	}
	sort.Strings(out)
	return fmt.Sprint(out)
}

type condWaiter struct {
	id        int
	task      *sim.Task
	ctx       *Ctx
	call      *Call
	unlockSeq uint64 // event number at which it released the lock inside Wait (0: not yet)
	inWait    bool
}

func condWorld(r *R) {
	k := 1 + r.Choose(4, "waiters")
	serial := r.Choose(3, "entry") == 2 // serial entry: a waiter enters only when the previous one is parked in its select
	entry := "concurrent-entry"
	if serial {
		entry = "serial-entry"
	}
	root := NewCtx(nil, "root")
	cs := &Calls{r: r}
	ol := &obsLocker{inner: &vsync.Mutex{}, holders: map[*sim.Task]int{}}
	if r.Choose(5, "shared-locker") == 4 {
		// the read side of an RWMutex: several waiters can be inside Wait's prologue at once
		ol.inner = (&vsync.RWMutex{}).RLocker()
		r.Probe("shared-locker")
	}
	cond := xsync.NewContextCond(ol)

	waiters := make([]*condWaiter, k)
	byTask := map[*sim.Task]*condWaiter{}
	ol.onUnlock = func(t *sim.Task) {
		if w := byTask[t]; w != nil && w.inWait && w.unlockSeq == 0 {
			w.unlockSeq = sim.Seq()
			r.Logf("event   waiter%d released the lock inside Wait #%d", w.id, w.unlockSeq)
		}
	}
	// in the unlock->park window = released the lock, not yet blocked in the select, not returned
	inWindow := func() int {
		n := 0
		for _, w := range waiters {
			if w != nil && w.unlockSeq != 0 && w.call != nil && !w.call.Returned && !w.task.BlockedInOp() {
				n++
			}
		}
		return n
	}

	// locked-cancel runs: nobody ever signals (so no waiter can have been woken); a holder takes the
	// lock while waiters are parked, expires their contexts and keeps the lock until nothing else can
	// run: every parked Wait must have come back with its context's error without needing the lock.
	lockedCancel := r.Choose(6, "locked-cancel") == 5
	var cancellable []*Ctx
	for i := 0; i < k; i++ {
		w := &condWaiter{id: i}
		wctx := r.Choose(5, "wctx")
		if lockedCancel {
			wctx = 3
		}
		switch wctx {
		case 3:
			w.ctx = NewCtx(root, fmt.Sprintf("w%d", i))
			if r.Choose(3, "with-cause") == 2 {
				// cancelled with a cause of its own: Err() is still context.Canceled
				w.ctx = NewCauseCtx(root, fmt.Sprintf("w%d", i), NewErr("cause"))
			}
			cancellable = append(cancellable, w.ctx)
		case 4:
			w.ctx = PreCancelled(root, fmt.Sprintf("w%d", i))
			if r.Choose(3, "cancelled-then-deadline-passed") == 2 {
				// cancelled by hand, and by the time of the Wait its deadline has passed as well: the
				// context's error stays context.Canceled
				w.ctx = NewDeadlineCtxExact(root, fmt.Sprintf("w%d", i), time.Millisecond)
				w.ctx.Cancel()
				sim.Sleep(2*time.Millisecond, "let-the-deadline-pass")
				r.Probe("waiter-context-cancelled-before-its-deadline-passed")
			}
			r.Fault("ctx_precancelled")
		default:
			w.ctx = root
		}
		if wctx >= 3 && r.Choose(5, "own-err") == 4 {
			// the caller's own Context implementation, whose Err() is a value of its own
			w.ctx.OwnErr()
			r.Probe("waiter-context-with-own-error-value")
		}
		waiters[i] = w
	}
	type sigOp struct {
		broadcast bool
		hold      bool
		spin      int
	}
	nsig := 1 + r.Choose(2, "signallers")
	sigPlans := make([][]sigOp, nsig)
	for s := range sigPlans {
		n := r.Choose(4, "nsignals")
		if lockedCancel {
			n = 0
		}
		for j := 0; j < n; j++ {
			sigPlans[s] = append(sigPlans[s], sigOp{broadcast: r.Choose(5, "bcast") == 4, hold: r.Choose(3, "hold") == 2, spin: r.Choose(6, "sigspin")})
		}
	}
	r.Logf("config: waiters=%d %s signallers=%v", k, entry, sigPlans)

	for i := 0; i < k; i++ {
		w := waiters[i]
		pace := r.Choose(4, "wpace")
		w.task = sim.GoNamed(fmt.Sprintf("waiter%d", i), func() {
			Spin(pace, "waiter-pace")
			if serial && w.id > 0 {
				prev := waiters[w.id-1]
				sim.WaitUntil("gate", func() bool {
					return prev.task.Done() || (prev.call != nil && (prev.call.Returned || prev.task.BlockedInOp()))
				})
			}
			ol.Lock()
			c := cs.Begin(fmt.Sprintf("waiter%d", w.id), "Wait", w.id, w.ctx)
			w.call = c
			w.inWait = true
			err := cond.Wait(w.ctx.C)
			w.inWait = false
			cs.End(c, 0, err == nil, err)
			self := sim.Self()
			if err == nil {
				if !ol.heldBy(self) {
					r.Violate("C16", "nil-return-without-lock", "Wait returned nil but the caller does not hold the lock (held by %v)", ol.owners())
					return
				}
				if w.unlockSeq == 0 {
					r.Violate("C16", "nil-return-without-unlock", "Wait returned nil without ever having released the lock")
				}
				ol.Unlock()
			} else {
				if ol.heldBy(self) {
					r.Violate("C16", "error-return-holding-lock", "Wait returned %v but still holds the lock", err)
					ol.Unlock()
					return
				}
				if err != w.ctx.C.Err() || w.ctx.C.Err() == nil {
					r.Violate("C16", "wrong-error", "Wait returned %v, but its context's error is %v", err, w.ctx.C.Err())
					return
				}
				r.Probe("wait-cancelled")
				at := c.InvAt
				if x, ok := w.ctx.ExpiredAt(); ok && x > at {
					at = x
				}
				if c.RetAt != at {
					r.Violate("C16", "cancel-not-prompt", "Wait returned its context error at t=%dns although the context had expired at t=%dns", c.RetAt, at)
				}
			}
		})
		byTask[w.task] = w
	}
	var signals, broadcasts []*Call
	for s := 0; s < nsig; s++ {
		s := s
		sim.GoNamed(fmt.Sprintf("signaller%d", s), func() {
			for j, op := range sigPlans[s] {
				Spin(op.spin, "signaller-pace")
				if op.hold {
					ol.Lock()
				}
				if op.broadcast {
					c := cs.Begin(fmt.Sprintf("signaller%d", s), "Broadcast", j, nil)
					if inWindow() > 0 {
						r.Probe("broadcast-while-waiter-in-window")
					}
					broadcasts = append(broadcasts, c)
					cond.Broadcast()
					cs.End(c, 0, true, nil)
				} else {
					c := cs.Begin(fmt.Sprintf("signaller%d", s), "Signal", j, nil)
					switch n := inWindow(); {
					case n >= 2:
						r.Probe("two-waiters-in-window-at-signal")
						fallthrough
					case n == 1:
						r.Probe("signal-while-waiter-in-window")
					}
					signals = append(signals, c)
					cond.Signal()
					cs.End(c, 0, true, nil)
				}
				if op.hold {
					ol.Unlock()
				}
			}
		})
	}
	if lockedCancel {
		r.Probe("cancel-while-lock-held-by-another")
		sim.GoNamed("holder", func() {
			Spin(r.Choose(12, "holder-spin"), "holder-pace")
			ol.Lock()
			for _, c := range cancellable {
				r.Fault("ctx_cancel_midcall")
				c.Cancel()
			}
			sim.WaitIdle("holder-holds-lock")
			for _, w := range waiters {
				if w.call != nil && !w.call.Returned {
					r.Violate("C16", "cancel-not-prompt/lock-held-by-another", "waiter%d's context expired while another goroutine holds the lock and nothing was ever signalled, but Wait has not returned: %v (%v)", w.id, w.call, sim.TaskStates())
					break
				}
			}
			ol.Unlock()
		})
	} else if len(cancellable) > 0 {
		sim.GoNamed("canceller", func() {
			for _, c := range cancellable {
				Spin(r.Choose(10, "cancel-spin"), "canceller-pace")
				r.Fault("ctx_cancel_midcall")
				c.Cancel()
			}
		})
	}

	sim.WaitStuck("cond-phase1")
	if r.Failed() {
		return
	}
	for _, c := range cs.Pending() {
		if c.Kind != "Wait" {
			r.Violate("C16", "stuck/"+c.Kind, "%s never returned: %v", c.Kind, c)
			return
		}
	}
	for _, w := range waiters {
		if w.call == nil {
			// never got to call Wait: somebody holds the lock for ever
			r.Violate("C16", "stuck/lock", "waiter%d never acquired the lock (held by %v)", w.id, ol.owners())
			return
		}
		if w.call.Returned {
			if w.call.Err == nil {
				// woken: by what?
				woken := "wait-woken-by-signal"
				for _, b := range broadcasts {
					if b.Inv < w.call.Ret {
						woken = "wait-woken-by-broadcast"
					}
				}
				r.Probe(woken)
			}
			continue
		}
		// still parked
		if w.ctx.Dead() {
			r.Violate("C16", "stuck/Wait/ctx-expired", "waiter%d is still parked although its context expired: %v", w.id, w.call)
			return
		}
		if w.unlockSeq == 0 {
			r.Violate("C16", "stuck/Wait/before-unlock", "waiter%d is stuck inside Wait before releasing the lock: %v", w.id, w.call)
			return
		}
		for _, b := range broadcasts {
			if b.Inv > w.unlockSeq {
				r.Violate("C16", "lost-wakeup/broadcast/"+entry, "waiter%d released the lock at #%d, Broadcast was invoked at #%d, but the waiter is still parked", w.id, w.unlockSeq, b.Inv)
				return
			}
		}
		j, woke := 0, 0
		for _, s := range signals {
			if s.Inv > w.unlockSeq {
				j++
			}
		}
		for _, o := range waiters {
			if o.call != nil && o.call.Returned && o.call.Err == nil && o.call.Ret > w.unlockSeq {
				woke++
			}
		}
		if woke == 0 && j > 0 {
			// Not one Wait returned although Signals were invoked while this waiter was available: a
			// wakeup vanished altogether (the one-slot channel of the known finding can drop or
			// misdirect signals, but every token it does accept wakes somebody).
			r.Violate("C16", "lost-wakeup/signal-vanished/"+entry, "waiter%d released the lock at #%d and is still parked with a live context; since then %d Signal calls were invoked and not a single Wait call returned", w.id, w.unlockSeq, j)
			return
		}
		if woke < j {
			r.Violate("C16", "lost-wakeup/signal/"+entry, "waiter%d released the lock at #%d and is still parked with a live context; since then %d Signal calls were invoked but only %d Wait calls returned nil: a wakeup was lost", w.id, w.unlockSeq, j, woke)
			return
		}
	}
	// phase 2: expire every context; every Wait must come back with the context's error
	root.Cancel()
	sim.WaitStuck("cond-phase2")
	for _, c := range cs.Pending() {
		r.Violate("C16", "stuck/"+c.Kind+"/ctx-expired", "%s is still blocked although its context expired: %v", c.Kind, c)
	}
}
