package worlds

import (
	"math"
	"math/bits"
	"runtime"
	"weak"

	"github.com/bradenaw/juniper/container/deque"
	"github.com/bradenaw/juniper/iterator"
)

// World `deque` (C04, C15): one mutator issuing all twelve Deque operations from the zero value
// against a slice model, plus (when C15 is the property being checked) up to three live iterators
// whose single Next calls the tape interleaves with every kind of modification.
//
// When C04 is being checked the live iterators are switched off (Iterate is still exercised as an
// operation that collects in one go): iterators only read, so they cannot influence a C04 outcome,
// and their own oracle (C15) would otherwise cut most histories short as a sibling.

func init() {
	Register(&World{Name: "deque", Props: []string{"C04", "C15"}, Concurrent: false, Run: dequeWorld})
	ExpectedProbes["deque"] = []string{
		"grow-wrapped-full", "push-expands-wrapped-full", "shrink0-empty-then-pushfront",
		"exact-fit-then-push", "shrink-wrapped", "pop-to-empty", "crash-pop-empty",
		"crash-front-back-empty", "crash-index", "crash-shrink-negative",
	}
	ExpectedProbes["deque/C15"] = []string{
		"pop-to-empty-under-iter", "resize-wrapped-under-iter", "set-under-iter",
		"iter-panicked", "iter-called-again-after-panic", "iter-exhausted-clean", "iter-gen-wrap",
	}
}

// dqVal is what the deque holds (by pointer): 32 bytes so that it is never tiny-allocated, which
// the weak-pointer probe relies on. Every pushed or Set value is a fresh object.
type dqVal struct {
	id  int
	pad [3]int
}

const (
	dqPushFront = iota
	dqPushBack
	dqPopFront
	dqPopBack
	dqFront
	dqBack
	dqItem
	dqSet
	dqLen
	dqGrow
	dqShrink
	dqIterate // Iterate collected in one go
	dqNumMutatorOps
	dqIterNext = dqNumMutatorOps // one Next of a live iterator (state classes only)
)

var dqOpName = [...]string{"PushFront", "PushBack", "PopFront", "PopBack", "Front", "Back", "Item", "Set", "Len", "Grow", "Shrink", "Iterate", "IterNext"}

// ---- reference model: a plain slice with spare room in front ------------------------------------

type dqModel struct {
	buf  []*dqVal
	head int
}

func (m *dqModel) n() int          { return len(m.buf) - m.head }
func (m *dqModel) view() []*dqVal  { return m.buf[m.head:] }
func (m *dqModel) at(i int) *dqVal { return m.buf[m.head+i] }
func (m *dqModel) pushBack(v *dqVal) {
	m.buf = append(m.buf, v)
}
func (m *dqModel) pushFront(v *dqVal) {
	if m.head == 0 {
		extra := len(m.buf) + 8
		nb := make([]*dqVal, extra+len(m.buf), 2*(extra+len(m.buf)))
		copy(nb[extra:], m.buf)
		m.buf, m.head = nb, extra
	}
	m.head--
	m.buf[m.head] = v
}
func (m *dqModel) popFront() *dqVal {
	v := m.buf[m.head]
	m.buf[m.head] = nil
	m.head++
	if m.head == len(m.buf) {
		m.buf, m.head = m.buf[:0], 0
	}
	return v
}
func (m *dqModel) popBack() *dqVal {
	l := len(m.buf) - 1
	v := m.buf[l]
	m.buf[l] = nil
	m.buf = m.buf[:l]
	if m.head == len(m.buf) {
		m.buf, m.head = m.buf[:0], 0
	}
	return v
}

// ---- live iterators (C15) -----------------------------------------------------------------------

const (
	dqmPush = 1 << iota
	dqmPop
	dqmPopEmpty
	dqmResize
	dqmSet
)

// dqCause names the most significant kind of modification in mask (signatures only).
func dqCause(mask uint8) string {
	switch {
	case mask&dqmPush != 0:
		return "push"
	case mask&dqmPop != 0:
		return "pop"
	case mask&dqmPopEmpty != 0:
		return "pop-to-empty"
	case mask&dqmResize != 0:
		return "resize"
	case mask&dqmSet != 0:
		return "set"
	}
	return "nothing"
}

type dqIter struct {
	it        iterator.Iterator[*dqVal]
	id        int
	s0, s1    []*dqVal // contents at creation / at the first Next
	v0, v1    bool     // the yields so far are a correct prefix of s0 / s1
	started   bool
	exhausted bool
	yielded   int
	addRem    uint8 // elements added/removed since the last Next (dqmPush|dqmPop|dqmPopEmpty)
	since     uint8 // every kind of modification since creation (signature naming)
	sinceFst  uint8 // every kind of modification since the first Next (signature naming)
	touched   bool  // any mutator call at all since creation
	poisoned  bool  // has panicked once
}

func dqSafeNext(it iterator.Iterator[*dqVal]) (item *dqVal, ok bool, panicked bool) {
	defer func() {
		if p := recover(); p != nil {
			passThrough(p)
			panicked = true
		}
	}()
	item, ok = it.Next()
	return
}

// ---- the world ----------------------------------------------------------------------------------

type dqW struct {
	wrapped bool
	r      *R
	d      deque.Deque[*dqVal] // used from its zero value
	m      dqModel
	nextID int
	c15    bool
	iters  []*dqIter
	nIter  int
	// generation profile (C15): keep away from the modifications that DESIGN.md §5 suspects are
	// not fail-fast, in some runs, so that the other clauses get deep histories too
	avoidResize, avoidPopEmpty bool
	sinceFull                  int
	prevFull                   bool // the previous check compared everything (so blame is exact)
	exactFitOp                 int // r.Ops value right after a Shrink(0) that reallocated
	gcOn                       bool
	weaks                      []weak.Pointer[dqVal]
	weakPos                    int
}

func dqID(v *dqVal) int {
	if v == nil {
		return -1
	}
	return v.id
}

// dqName is how a value appears in messages and history lines.
func dqName(v *dqVal) string {
	if v == nil {
		return "nil"
	}
	return "v" + itoa(v.id)
}

func (w *dqW) newVal() *dqVal {
	w.nextID++
	return &dqVal{id: w.nextID}
}

// exec performs one library call; a panic is caught and reported.
func (w *dqW) exec(op, i int, v *dqVal) (ret *dqVal, n int, panicked bool) {
	defer func() {
		if p := recover(); p != nil {
			passThrough(p)
			panicked = true
		}
	}()
	d := &w.d
	switch op {
	case dqPushFront:
		d.PushFront(v)
	case dqPushBack:
		d.PushBack(v)
	case dqPopFront:
		ret = d.PopFront()
	case dqPopBack:
		ret = d.PopBack()
	case dqFront:
		ret = d.Front()
	case dqBack:
		ret = d.Back()
	case dqItem:
		ret = d.Item(i)
	case dqSet:
		d.Set(i, v)
	case dqLen:
		n = d.Len()
	case dqGrow:
		d.Grow(i)
	case dqShrink:
		d.Shrink(i)
	}
	return
}

func (w *dqW) recordState(op int) {
	c, front, back, _ := w.d.VerifState()
	n := w.m.n()
	capClass, frontClass, lenClass := 0, 0, 0
	if c > 0 {
		capClass = bits.Len(uint(c)) * 2
		if c&(c-1) != 0 {
			capClass++
		}
		switch {
		case front == 0:
		case front == 1:
			frontClass = 1
		case front == c-1:
			frontClass = 4
		case front == c-2:
			frontClass = 3
		default:
			frontClass = 2
		}
	}
	switch {
	case n <= 2:
		lenClass = n
	case n == c:
		lenClass = 6
	case n == c-1:
		lenClass = 5
	case n < c/2:
		lenClass = 3
	default:
		lenClass = 4
	}
	wrapped, full, emptyAlloc := 0, 0, 0
	if n > 0 && front > back {
		wrapped = 1
	}
	if c > 0 && n == c {
		full = 1
	}
	if c > 0 && back == -1 {
		emptyAlloc = 1
	}
	h := uint64(capClass)
	h = h*8 + uint64(frontClass)
	h = h*2 + uint64(wrapped)
	h = h*2 + uint64(full)
	h = h*2 + uint64(emptyAlloc)
	h = h*8 + uint64(lenClass)
	h = h*16 + uint64(op)
	w.r.State(h)
}

// liveUnfinished reports whether some iterator could still be affected by a modification;
// startedOnly restricts to iterators that have taken at least one Next.
func (w *dqW) liveUnfinished(startedOnly bool) bool {
	for _, it := range w.iters {
		if !it.exhausted && (it.started || !startedOnly) {
			return true
		}
	}
	return false
}

func (w *dqW) dropAllIters() {
	if len(w.iters) > 0 && w.r.Trace {
		w.r.Logf("drop all iterators")
	}
	w.iters = w.iters[:0]
}

// do performs one mutator operation with the C04 oracle.
func (w *dqW) do(op, arg int) {
	r := w.r
	if r.Failed() {
		return
	}
	n := w.m.n()
	var v *dqVal
	wantPanic := false
	switch op {
	case dqPushFront, dqPushBack:
		v = w.newVal()
	case dqSet:
		v = w.newVal()
		wantPanic = arg < 0 || arg >= n
	case dqItem:
		wantPanic = arg < 0 || arg >= n
	case dqPopFront, dqPopBack, dqFront, dqBack:
		wantPanic = n == 0
	case dqShrink:
		wantPanic = arg < 0
	case dqIterate:
		if n > 256 && r.Choose(8, "collect-big") != 0 {
			op = dqLen // collecting a big deque costs as much as hundreds of other operations
			break
		}
		w.collect()
		return
	}
	c0, front0, back0, _ := w.d.VerifState()
	wrapped0 := n > 0 && front0 > back0
	full0 := c0 > 0 && n == c0
	if w.c15 && len(w.iters) > 0 {
		if w.avoidResize && (op == dqGrow || op == dqShrink) && w.liveUnfinished(false) {
			w.dropAllIters()
		}
		if w.avoidPopEmpty && (op == dqPopFront || op == dqPopBack) && n == 1 && w.liveUnfinished(true) {
			w.dropAllIters()
		}
	}
	r.Ops++
	w.recordState(op)
	// probes on the state the operation meets
	switch op {
	case dqGrow:
		if arg > 0 && wrapped0 && full0 {
			r.Probe("grow-wrapped-full")
		}
	case dqPushFront, dqPushBack:
		if wrapped0 && full0 {
			r.Probe("push-expands-wrapped-full")
		}
		if w.exactFitOp == r.Ops-1 {
			if n == 0 && op == dqPushFront {
				r.Probe("shrink0-empty-then-pushfront")
			} else if n > 0 {
				r.Probe("exact-fit-then-push")
			}
		}
	case dqPopFront, dqPopBack:
		if n == 1 {
			r.Probe("pop-to-empty")
			if w.liveUnfinished(true) {
				r.Probe("pop-to-empty-under-iter")
			}
		}
	}

	ret, ln, panicked := w.exec(op, arg, v)

	name := dqOpName[op]
	if r.Trace {
		switch op {
		case dqPushFront, dqPushBack:
			r.Logf("%s(v%d) panicked=%v", name, v.id, panicked)
		case dqSet:
			r.Logf("Set(%d, v%d) panicked=%v", arg, v.id, panicked)
		case dqItem:
			r.Logf("Item(%d) -> %s panicked=%v", arg, dqName(ret), panicked)
		case dqGrow, dqShrink:
			c, f, b, _ := w.d.VerifState()
			r.Logf("%s(%d) panicked=%v   (now capacity=%d front=%d back=%d)", name, arg, panicked, c, f, b)
		case dqLen:
			r.Logf("Len() -> %d", ln)
		default:
			r.Logf("%s() -> %s panicked=%v", name, dqName(ret), panicked)
		}
	}
	r.Hist(op, arg, dqID(ret), ln, panicked)
	if panicked != wantPanic {
		if wantPanic {
			r.Violate("C04", "deque/missing-panic/"+name, "%s(%d) on a deque of %d items returned normally; the documented behaviour is a panic", name, arg, n)
		} else {
			r.Violate("C04", "deque/unexpected-panic/"+name, "%s(%d) on a deque of %d items panicked", name, arg, n)
		}
		return
	}
	if wantPanic {
		// crash point of one call: the deque must be exactly as before
		r.Fault("panic_expected")
		switch op {
		case dqPopFront, dqPopBack:
			r.Probe("crash-pop-empty")
		case dqFront, dqBack:
			r.Probe("crash-front-back-empty")
		case dqItem, dqSet:
			r.Probe("crash-index")
		case dqShrink:
			r.Probe("crash-shrink-negative")
		}
		// (live iterators are not marked as disturbed: a call that fails leaves the contents
		// unchanged, so an iterator must go on as over an unchanged deque)
		w.check(op, true)
		return
	}

	// advance the model, compare the return value
	var want *dqVal
	mod := uint8(0)
	switch op {
	case dqPushFront:
		w.m.pushFront(v)
		mod = dqmPush
	case dqPushBack:
		w.m.pushBack(v)
		mod = dqmPush
	case dqPopFront:
		want = w.m.popFront()
		mod = dqmPop
	case dqPopBack:
		want = w.m.popBack()
		mod = dqmPop
	case dqFront:
		want = w.m.at(0)
	case dqBack:
		want = w.m.at(n - 1)
	case dqItem:
		want = w.m.at(arg)
	case dqSet:
		w.m.buf[w.m.head+arg] = v
		mod = dqmSet
	case dqLen:
		if ln != n {
			r.Violate("C04", "deque/len-mismatch/Len", "Len() = %d, the model holds %d items", ln, n)
			return
		}
	case dqGrow, dqShrink:
		mod = dqmResize
	}
	if mod == dqmPop && n == 1 {
		mod = dqmPopEmpty
	}
	if want != ret {
		r.Violate("C04", "deque/wrong-return/"+name, "%s(%d) returned %s, the model says %s (len %d)", name, arg, dqName(ret), dqName(want), n)
		return
	}
	if w.gcOn && (op == dqPopFront || op == dqPopBack) {
		wp := weak.Make(ret)
		if len(w.weaks) < 64 {
			w.weaks = append(w.weaks, wp)
		} else {
			w.weaks[w.weakPos%64] = wp
			w.weakPos++
		}
	}
	force := false
	if op == dqGrow || op == dqShrink {
		c1, front1, _, _ := w.d.VerifState()
		realloc := c1 != c0 || front1 != front0
		force = realloc && n <= 512
		if realloc && !force && wrapped0 {
			// a large wrapped buffer was unwrapped: look at the seam right away (the complete
			// comparison follows within a number of steps proportional to the size)
			seam := c0 - front0
			for i := seam - 2; i <= seam+1; i++ {
				if i < 0 || i >= n {
					continue
				}
				if got, _, p := w.exec(dqItem, i, nil); p || got != w.m.at(i) {
					r.Violate("C04", "deque/item-mismatch/after-"+name, "after %s of a wrapped buffer: Item(%d) = %s (panicked=%v), the model says %s (len %d)", name, i, dqName(got), p, dqName(w.m.at(i)), n)
					return
				}
			}
		}
		if realloc && wrapped0 {
			if op == dqShrink {
				r.Probe("shrink-wrapped")
			}
			if w.liveUnfinished(false) {
				r.Probe("resize-wrapped-under-iter")
			}
		}
		if op == dqShrink && arg == 0 && c1 == n && c1 != c0 {
			w.exactFitOp = r.Ops
		}
	}
	if mod != 0 {
		for _, it := range w.iters {
			it.touched = true
			it.since |= mod
			if it.started {
				it.sinceFst |= mod
			}
			if mod&(dqmPush|dqmPop|dqmPopEmpty) != 0 {
				it.addRem |= mod
			}
			if mod == dqmSet && !it.exhausted {
				r.Probe("set-under-iter")
			}
		}
	}
	w.check(op, force)
}

// check compares the deque with the model after operation op: always Len, Front, Back and a few
// items; the complete contents and the raw slots (retention) when the buffer is small, when forced,
// or often enough that the amortised cost per operation stays constant.
func (w *dqW) check(op int, force bool) {
	r := w.r
	if r.Failed() {
		return
	}
	defer func() {
		if p := recover(); p != nil {
			passThrough(p)
			r.Violate("C04", "deque/observer-panicked/after-"+dqOpName[op], "Len/Front/Back/Item panicked on a deque that the model says holds %d items: %v", w.m.n(), p)
		}
	}()
	d := &w.d
	n := w.m.n()
	name := dqOpName[op]
	if l := d.Len(); l != n {
		r.Violate("C04", "deque/len-mismatch/after-"+name, "after %s: Len() = %d, the model holds %d items", name, l, n)
		return
	}
	if n > 0 {
		if f := d.Front(); f != w.m.at(0) {
			r.Violate("C04", "deque/front-mismatch/after-"+name, "after %s: Front() = %s, the model says %s", name, dqName(f), dqName(w.m.at(0)))
			return
		}
		if b := d.Back(); b != w.m.at(n-1) {
			r.Violate("C04", "deque/back-mismatch/after-"+name, "after %s: Back() = %s, the model says %s", name, dqName(b), dqName(w.m.at(n-1)))
			return
		}
	}
	c, front, _, _ := d.VerifState()
	w.sinceFull++
	full := force || c <= 64 || w.sinceFull*4 >= c+n
	// contents and raw slots are not compared completely after every step of a large deque; name
	// the operation in the signature only when it is certainly the one to blame
	blame := "detected-later"
	if w.prevFull {
		blame = "after-" + name
	}
	w.prevFull = full
	if !full {
		if n > 0 {
			for _, i := range [...]int{0, n - 1, n / 2, (r.Ops * 7919) % n} {
				if got := d.Item(i); got != w.m.at(i) {
					r.Violate("C04", "deque/item-mismatch/"+blame, "after %s: Item(%d) = %s, the model says %s (len %d)", name, i, dqName(got), dqName(w.m.at(i)), n)
					return
				}
			}
		}
		return
	}
	w.sinceFull = 0
	mv := w.m.view()
	for i, want := range mv {
		if got := d.Item(i); got != want {
			r.Violate("C04", "deque/item-mismatch/"+blame, "after %s: Item(%d) = %s, the model says %s (len %d)", name, i, dqName(got), dqName(want), n)
			return
		}
	}
	// retention: every slot outside the live range holds the zero value
	slots := d.VerifSlots()
	for p, s := range slots {
		if s == nil {
			continue
		}
		live := false
		if n > 0 {
			off := p - front
			if off < 0 {
				off += len(slots)
			}
			live = off < n
		}
		if !live {
			r.Violate("C04", "retention/slot-not-zeroed/"+blame, "after %s: raw slot %d (capacity %d, front %d, len %d) still holds v%d, which is not in the deque", name, p, len(slots), front, n, s.id)
			return
		}
	}
}

// collect exercises Iterate on the unchanged deque: exactly the contents, front to back.
func (w *dqW) collect() {
	r := w.r
	r.Ops++
	w.recordState(dqIterate)
	it := w.d.Iterate()
	mv := w.m.view()
	for j := 0; ; j++ {
		item, ok, panicked := dqSafeNext(it)
		if panicked {
			r.Violate("C04", "deque/iterate-panicked-unchanged", "an iterator over an unchanged deque of %d items panicked at its Next number %d", len(mv), j)
			return
		}
		if !ok {
			if j != len(mv) {
				r.Violate("C04", "deque/iterate-short", "an iterator over an unchanged deque of %d items reported exhaustion after %d items", len(mv), j)
			}
			break
		}
		if j >= len(mv) || item != mv[j] {
			r.Violate("C04", "deque/iterate-wrong-item", "an iterator over an unchanged deque of %d items yielded %s as item %d", len(mv), dqName(item), j)
			return
		}
	}
	r.Hist(dqIterate, len(mv))
	if r.Trace {
		r.Logf("Iterate() collected %d items", len(mv))
	}
}

func (w *dqW) newIter() {
	r := w.r
	w.nIter++
	it := &dqIter{it: w.d.Iterate(), id: w.nIter, v0: true}
	it.s0 = append([]*dqVal(nil), w.m.view()...)
	w.iters = append(w.iters, it)
	r.Ops++
	r.Hist("iter-new", it.id)
	if r.Trace {
		r.Logf("it%d := Iterate()   (deque holds %d items)", it.id, len(it.s0))
	}
}

func (w *dqW) dropIter(k int) {
	w.iters = append(w.iters[:k], w.iters[k+1:]...)
}

// iterNext lets live iterator k take one Next, with the C15 oracle.
func (w *dqW) iterNext(k int) {
	r := w.r
	if r.Failed() {
		return
	}
	it := w.iters[k]
	r.Ops++
	w.recordState(dqIterNext)
	item, ok, panicked := dqSafeNext(it.it)
	if r.Trace {
		switch {
		case panicked:
			r.Logf("it%d.Next() panicked", it.id)
		case ok:
			r.Logf("it%d.Next() -> %s", it.id, dqName(item))
		default:
			r.Logf("it%d.Next() -> exhausted", it.id)
		}
	}
	r.Hist("next", it.id, dqID(item), ok, panicked)
	if panicked {
		r.Probe("iter-panicked")
		if !it.touched {
			r.Violate("C15", "deque-iter/panic-on-unchanged", "iterator it%d panicked although no mutator was called since it was created", it.id)
		}
		// A panic does not end the obligation: a later call on the same iterator is still judged
		// (it may panic again; whatever it returns instead must still fit the snapshot).
		if it.poisoned {
			w.dropIter(k)
		} else {
			it.poisoned = true
			r.Probe("iter-called-again-after-panic")
			if r.Choose(2, "drain-after-panic") == 1 {
				// keep calling it: until it panics again (and is dropped) or reports exhaustion
				for n := 0; n < 40 && !r.Failed() && !it.exhausted; n++ {
					at := -1
					for q, o := range w.iters {
						if o == it {
							at = q
						}
					}
					if at < 0 {
						break
					}
					w.iterNext(at)
				}
			}
		}
		return
	}
	cur := w.m.view()
	// what the iterator may have been disturbed by: modifications before its first Next are part
	// of the snapshot taken there, so blame what came after it, if it had started
	cause := dqCause(it.since)
	if it.started {
		cause = dqCause(it.sinceFst)
	}
	if it.exhausted {
		if ok {
			r.Violate("C15", "deque-iter/item-after-exhaustion", "iterator it%d yielded %s after it had reported exhaustion", it.id, dqName(item))
		}
		return
	}
	if it.started && it.addRem != 0 && !it.poisoned {
		what := "reported exhaustion"
		if ok {
			what = "yielded an item"
		}
		r.Violate("C15", "deque-iter/no-panic-after-"+dqCause(it.addRem), "iterator it%d was under way (%d items yielded, not exhausted) when an element was added or removed (%s); its next call must panic but it %s", it.id, it.yielded, dqCause(it.addRem), what)
		return
	}
	if !it.started {
		it.started = true
		if it.touched {
			it.s1 = append([]*dqVal(nil), cur...)
		} else {
			it.s1 = it.s0 // no mutator call since creation: the same contents
		}
		it.v1 = true
	}
	it.addRem = 0
	j := it.yielded
	if ok {
		visible := j < len(cur) && item == cur[j] // an in-place Set may or may not be seen
		a0 := it.v0 && j < len(it.s0) && (item == it.s0[j] || visible)
		a1 := it.v1 && j < len(it.s1) && (item == it.s1[j] || visible)
		if !a0 && !a1 {
			r.Violate("C15", "deque-iter/wrong-item-after-"+cause, "iterator it%d yielded %s as its item %d; the contents were %s when it was created and %s at its first Next, position %d now holds %s (blamed modification: %s)", it.id, dqName(item), j, dqDescribe(it.s0), dqDescribe(it.s1), j, dqAt(cur, j), cause)
			return
		}
		it.v0, it.v1 = a0, a1
		it.yielded++
		return
	}
	if !((it.v0 && j == len(it.s0)) || (it.v1 && j == len(it.s1))) {
		r.Violate("C15", "deque-iter/early-exhaustion-after-"+cause, "iterator it%d reported exhaustion after %d items; the deque held %d items when it was created and %d at its first Next", it.id, j, len(it.s0), len(it.s1))
		return
	}
	it.exhausted = true
	if !it.touched {
		r.Probe("iter-exhausted-clean")
	}
}

func dqAt(s []*dqVal, j int) string {
	if j < len(s) {
		return "v" + itoa(s[j].id)
	}
	return "nothing"
}

func dqDescribe(s []*dqVal) string {
	out := "["
	for i, v := range s {
		if i == 12 {
			out += " ... (" + itoa(len(s)) + " items)"
			break
		}
		if i > 0 {
			out += " "
		}
		out += "v" + itoa(v.id)
	}
	return out + "]"
}

func itoa(i int) string {
	if i == 0 {
		return "0"
	}
	neg := i < 0
	if neg {
		i = -i
	}
	var b [24]byte
	p := len(b)
	for i > 0 {
		p--
		b[p] = byte('0' + i%10)
		i /= 10
	}
	if neg {
		p--
		b[p] = '-'
	}
	return string(b[p:])
}

// ---- generation ---------------------------------------------------------------------------------

func (w *dqW) growArg() int {
	c, _, _, _ := w.d.VerifState()
	switch w.r.Choose(4, "grow-class") {
	case 0:
		return 0
	case 1:
		return -1 - w.r.Choose(3, "grow-neg")
	case 3:
		if c <= 2048 {
			return c + 1 + w.r.Choose(8, "grow-big")
		}
	}
	return 1 + w.r.Choose(8, "grow-small")
}

func (w *dqW) shrinkArg() int {
	c, _, _, _ := w.d.VerifState()
	switch w.r.Choose(6, "shrink-class") {
	case 0:
		return 0
	case 1:
		return -1
	case 2:
		return 1 + w.r.Choose(4, "shrink-small")
	case 4:
		// far more slack allowed than any buffer has: a no-op, also at the edge of int
		return []int{1 << 40, math.MaxInt, math.MaxInt - 1, math.MinInt}[w.r.Choose(4, "shrink-huge")]
	case 5:
		return -1 - w.r.Choose(1<<20, "shrink-negative")
	}
	return c - w.m.n() + w.r.Choose(3, "shrink-slack")
}

func (w *dqW) indexArg() int {
	n := w.m.n()
	switch w.r.Choose(5, "index-class") {
	case 0:
		return 0
	case 1:
		return n - 1
	case 2:
		return w.r.Choose(n, "index")
	case 3:
		return -1
	}
	return n
}

func (w *dqW) mutate(op int) {
	arg := 0
	switch op {
	case dqGrow:
		arg = w.growArg()
	case dqShrink:
		arg = w.shrinkArg()
	case dqItem, dqSet:
		arg = w.indexArg()
	}
	w.do(op, arg)
}

// genWrap: between two consecutive calls of one iterator that is under way, exactly 256 (rarely
// 65536) modifications are made - as many as a narrow modification counter needs to come round to
// the value the iterator remembers. Its next call must panic like after any other modification.
func (w *dqW) genWrap(k int) {
	r := w.r
	it := w.iters[k]
	// make room first, so that none of the counted pushes has to resize (a resize is a
	// modification of its own)
	w.do(dqPushBack, 0)
	w.do(dqPopBack, 0)
	if r.Failed() {
		return
	}
	for q, o := range w.iters {
		if o == it {
			w.iterNext(q)
		}
	}
	if r.Failed() || it.exhausted || it.poisoned || !it.started {
		return
	}
	found := false
	for _, o := range w.iters {
		found = found || o == it
	}
	if !found {
		return
	}
	pairs := 128
	if r.Tier == "thorough" && r.Choose(8, "wrap-64k") == 7 {
		pairs = 32768
	}
	r.Probe("iter-gen-wrap")
	for i := 0; i < pairs && !r.Failed(); i++ {
		w.do(dqPushBack, 0)
		w.do(dqPopBack, 0)
	}
	if r.Failed() {
		return
	}
	for q, o := range w.iters {
		if o == it {
			w.iterNext(q)
		}
	}
}

func (w *dqW) iterAction(preferNext bool) {
	r := w.r
	live := len(w.iters)
	if live > 0 && !w.wrapped && r.Choose(48, "gen-wrap") == 47 {
		w.wrapped = true // once per run
		w.genWrap(r.Choose(live, "iter-pick"))
		return
	}
	c := r.Choose(8, "iter-act")
	switch {
	case live == 0 || (c == 0 && live < 3 && !preferNext):
		if live >= 3 {
			w.dropIter(0)
		}
		w.newIter()
	case c == 1 && !preferNext:
		k := r.Choose(live, "iter-drop")
		if r.Trace {
			r.Logf("abandon it%d", w.iters[k].id)
		}
		w.dropIter(k)
	default:
		w.iterNext(r.Choose(live, "iter-pick"))
	}
}

const (
	dqPhMixed = iota
	dqPhFillBack
	dqPhFillFront
	dqPhDrainFront
	dqPhDrainBack
	dqPhQueueFwd
	dqPhQueueBwd
	dqPhScript
	dqPhIterate // C15 only
)

func (w *dqW) step(phase, k int) {
	r := w.r
	if w.c15 {
		if phase == dqPhIterate {
			if r.Choose(8, "iter-phase") != 7 {
				w.iterAction(true)
				return
			}
		} else if r.Choose(4, "iter?") == 3 {
			w.iterAction(false)
			return
		}
	}
	op := -1
	if phase != dqPhMixed && phase != dqPhIterate && r.Choose(10, "bias") < 7 {
		switch phase {
		case dqPhFillBack:
			op = dqPushBack
		case dqPhFillFront:
			op = dqPushFront
		case dqPhDrainFront:
			op = dqPopFront
		case dqPhDrainBack:
			op = dqPopBack
		case dqPhQueueFwd:
			op = dqPushBack
			if k&1 == 1 {
				op = dqPopFront
			}
		case dqPhQueueBwd:
			op = dqPushFront
			if k&1 == 1 {
				op = dqPopBack
			}
		}
	}
	if (op == dqPopFront || op == dqPopBack) && w.m.n() == 0 {
		op = -1 // a drain that has reached the bottom: do not spend the phase on empty pops
	}
	if op < 0 {
		op = r.Choose(dqNumMutatorOps, "op")
	}
	w.mutate(op)
}

// script drives the deque into one of the rare (capacity, front, length) corners and applies the
// operation of interest there, optionally under a live iterator at a chosen position. Every step
// goes through the same oracles as any other operation.
func (w *dqW) script(budget int) {
	r := w.r
	kind := r.Choose(4, "script")
	c, front, _, _ := w.d.VerifState()
	n := w.m.n()
	withIter := func() {
		if !w.c15 || r.Choose(2, "script-iter") == 0 {
			return
		}
		if len(w.iters) >= 3 {
			w.dropIter(0)
		}
		w.newIter()
		k := r.Choose(w.m.n()+2, "script-nexts")
		if k > 40 {
			k = 40
		}
		for ; k > 0 && !r.Failed() && len(w.iters) > 0; k-- {
			w.iterNext(len(w.iters) - 1)
		}
	}
	after := func() {
		for k := r.Choose(4, "script-after"); k > 0 && !r.Failed() && len(w.iters) > 0; k-- {
			w.iterNext(len(w.iters) - 1)
		}
	}
	switch kind {
	case 0: // wrapped (full, or a few short of full), then Grow / Shrink / push / Set
		if c > 300 || budget < c+8 {
			return
		}
		if front == 0 || c == 0 {
			w.do(dqPushFront, 0)
		}
		for !r.Failed() {
			c, _, _, _ = w.d.VerifState()
			if w.m.n() >= c {
				break
			}
			w.do(dqPushBack, 0)
		}
		for k := r.Choose(4, "script-pops"); k > 0 && w.m.n() > 1; k-- {
			if r.Choose(2, "script-popside") == 0 {
				w.do(dqPopFront, 0)
			} else {
				w.do(dqPopBack, 0)
			}
		}
		withIter()
		switch r.Choose(6, "script-final") {
		case 0:
			w.do(dqGrow, 1+r.Choose(8, "grow-small"))
		case 1:
			w.do(dqGrow, c+1+r.Choose(8, "grow-big"))
		case 2:
			w.do(dqShrink, 0)
		case 3:
			w.do(dqShrink, 1+r.Choose(4, "shrink-small"))
		case 4:
			w.do(dqPushFront+r.Choose(2, "script-pushside"), 0)
		case 5:
			w.do(dqSet, w.indexArg())
		}
		after()
	case 1: // empty it, Shrink(0) (capacity 0, not nil), then PushFront
		if n > 300 || budget < n+8 {
			return
		}
		for w.m.n() > 0 && !r.Failed() {
			w.do(dqPopFront+r.Choose(2, "script-popside"), 0)
		}
		w.do(dqShrink, 0)
		withIter()
		w.do(dqPushFront+r.Choose(2, "script-pushside"), 0)
		after()
	case 2: // exactly fitting, then push
		if n == 0 {
			w.do(dqPushBack, 0)
		}
		w.do(dqShrink, 0)
		withIter()
		w.do(dqPushFront+r.Choose(2, "script-pushside"), 0)
		after()
	case 3: // down to one item, iterator at position 0, 1 or past the end, then the pop that empties
		if n > 300 || budget < n+8 {
			return
		}
		for w.m.n() > 1 && !r.Failed() {
			w.do(dqPopFront+r.Choose(2, "script-popside"), 0)
		}
		if w.m.n() == 0 {
			w.do(dqPushBack, 0)
		}
		withIter()
		w.do(dqPopFront+r.Choose(2, "script-popside"), 0)
		after()
	}
}

// gcProbe: the values popped last must be collectable once the harness has dropped them.
func (w *dqW) gcProbe() {
	r := w.r
	w.iters = nil
	runtime.GC()
	for _, wp := range w.weaks {
		if v := wp.Value(); v != nil {
			r.Violate("C04", "retention/popped-value-still-reachable", "v%d was popped and dropped by the harness, yet it is still reachable after a garbage collection (the deque holds %d items)", v.id, w.m.n())
			return
		}
	}
	r.Probe("gc-probe")
	r.Hist("gc-probe-ok")
}

func dequeWorld(r *R) {
	w := &dqW{r: r, c15: r.Focus == "C15", exactFitOp: -10}
	sizes := []int{40, 300, 2000}
	if r.Tier == "thorough" {
		sizes = append(sizes, 20000)
	}
	maxOps := sizes[r.Choose(len(sizes), "history-len")]
	phaseMax := []int{12, 60, 400, 2500}[r.Choose(4, "phase-max")]
	nPhases := dqPhScript + 1
	if w.c15 {
		nPhases = dqPhIterate + 1
		p := r.Choose(4, "profile")
		w.avoidResize = p&1 != 0
		w.avoidPopEmpty = p&2 != 0
	} else {
		w.gcOn = r.Bool(1, 32, "gc-probe")
	}
	if r.Trace {
		r.Logf("config: focus=%s maxOps=%d phaseMax=%d avoidResizeUnderIter=%v avoidPopEmptyUnderIter=%v gcProbe=%v", r.Focus, maxOps, phaseMax, w.avoidResize, w.avoidPopEmpty, w.gcOn)
	}
	// the zero value answers like an empty sequence
	w.check(dqLen, true)
	for r.Ops < maxOps && !r.Failed() {
		phase := r.Choose(nPhases, "phase")
		if phase == dqPhScript {
			w.script(maxOps - r.Ops)
			continue
		}
		plen := 1 + r.Choose(phaseMax, "phase-len")
		for k := 0; k < plen && r.Ops < maxOps && !r.Failed(); k++ {
			w.step(phase, k)
		}
	}
	if r.Failed() {
		return
	}
	w.check(dqLen, true)
	if w.gcOn && !r.Failed() {
		w.gcProbe()
	}
}
