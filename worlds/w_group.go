package worlds

import (
	"fmt"

	"github.com/bradenaw/juniper/xsync"

	"verifsim/context"
	"verifsim/sim"
	"verifsim/time"
)

// World `group` (C17): registrars, triggerers, a stopper and a parent-context canceller around
// xsync.Group, on the simulated clock.

func init() {
	Register(&World{Name: "group", Episodes: true, Props: []string{"C17"}, Concurrent: true, Timed: true, MaxSteps: 8000, Run: groupWorld})
	ExpectedProbes["group"] = []string{"two-concurrent-stopandwait-calls", "f-retriggers-itself-every-run", "periodic-interval-not-positive", "registration-after-stop", "registration-racing-stop", "trigger-during-run", "trigger-with-slot-full", "periodic-ran", "stop-while-f-running", "parent-cancelled", "do-ran", "periodic-or-trigger-by-timer", "periodic-or-trigger-by-trigger"}
}

type groupReg struct {
	id       int
	kind     int // 0 Do, 1 Periodic, 2 Trigger, 3 PeriodicOrTrigger
	interval time.Duration
	jitter   time.Duration
	runTime  time.Duration
	respect  bool
	delay    time.Duration
	spin     int
	raceStop bool // register as soon as a stop has been invoked (start racing with the stop)

	regInv, regRet uint64
	regAt          int64
	registered     bool
	trigger        func()
	running        int
	starts         []uint64
	startAt        []int64
	ends           []uint64
	trigCalls      []uint64
	selfTrig       int // the function calls its own trigger function this many times
	nestDo         bool // the function registers another one (g.Do) from inside its first run
	nested         bool // registered from inside a run
	lastStartByTimer bool
	deadStarts       int // runs begun with the context already ended
}

func groupWorld(r *R) {
	nreg := 1 + r.Choose(4, "regs")
	settled := r.Choose(3, "settled") != 2
	parentKind := r.Choose(6, "parent-kind") // 4: the parent context is cancelled by a party; 5: it has a deadline of its own
	parentCancel := parentKind >= 4
	stopMode := r.Choose(3, "stopmode") // 0 StopAndWait, 1 Stop then StopAndWait, 2 StopAndWait twice (second from another task)
	root := NewCtx(nil, "root")
	parent := root
	if parentKind == 4 {
		parent = NewCtx(root, "parent")
	} else if parentKind == 5 {
		parent = NewDeadlineCtx(root, "parent", []time.Duration{time.Nanosecond, 37 * time.Millisecond, 151 * time.Millisecond}[r.Choose(3, "parent-deadline")])
		r.Fault("parent_deadline")
	}
	g := xsync.NewGroup(parent.C)
	strict := r.Cfg.StallPer1k == 0 && r.Cfg.LatePer1k == 0 && r.Cfg.ClockTickPer1k == 0

	regs := make([]*groupReg, nreg)
	var longest time.Duration
	for i := range regs {
		rg := &groupReg{id: i, kind: r.Choose(4, "kind")}
		rg.interval = time.Duration(1+r.Choose(4, "interval")) * 50 * time.Millisecond
		rg.jitter = time.Duration(r.Choose(3, "jitter")) * 10 * time.Millisecond
		if r.Choose(6, "wide-jitter") == 5 {
			rg.jitter = rg.interval * time.Duration(1+r.Choose(3, "wide-jitter-x")) // the next period may come out <= 0
		}
		if rg.kind == 3 && r.Choose(4, "long-interval") == 3 {
			rg.interval = 3 * time.Second // far longer than the settle window: only triggers make it run again soon
			rg.jitter = 0
		}
		rg.runTime = []time.Duration{0, 5 * time.Millisecond, 30 * time.Millisecond, 120 * time.Millisecond}[r.Choose(4, "runtime")]
		rg.respect = r.Choose(2, "respect") == 1
		if rg.kind == 1 && rg.runTime > 0 && !settled && r.Choose(3, "zero-interval") == 2 {
			// "as often as possible": a Periodic function with no interval at all (or a negative one) runs
			// back to back - and stops like any other (the runs themselves take simulated time, so the
			// clock still moves; only in runs that stop at a chosen moment, since no instant is idle)
			rg.interval, rg.jitter = []time.Duration{0, -50 * time.Millisecond}[r.Choose(2, "zero-interval-kind")], 0
			r.Probe("periodic-interval-not-positive")
		}
		if !settled && r.Choose(2, "late-reg") == 1 {
			rg.delay = time.Duration(r.Choose(12, "reg-delay")) * 23 * time.Millisecond
		}
		rg.spin = r.Choose(6, "reg-spin")
		rg.nestDo = r.Choose(5, "nested-do") == 4
		if (rg.kind == 2 || rg.kind == 3) && r.Choose(3, "self-trigger") == 2 {
			rg.selfTrig = 1
			if !settled && rg.runTime > 0 && r.Choose(3, "self-trigger-always") == 2 {
				// "there is more work": the function asks for another run of itself every time, so a
				// trigger is pending whenever a run ends - also when the group is stopped
				rg.selfTrig = 1 << 30
				r.Probe("f-retriggers-itself-every-run")
			}
		}
		rg.raceStop = !settled && r.Choose(3, "race-stop") == 2
		if rg.runTime > longest {
			longest = rg.runTime
		}
		regs[i] = rg
	}
	var stopInv, stopRet uint64 // StopAndWait (the first one to return)
	var stopInvAt int64
	var anyStopInv uint64
	stopped := func() bool { return anyStopInv != 0 || parent.Dead() }

	// (settled runs judge triggers once no more trigger calls are made: a function only triggers
	// itself while the triggerers are still at work)
	triggerersActive := func() bool { return false }
	var mkF func(rg *groupReg) func(ctx context.Context)
	mkF = func(rg *groupReg) func(ctx context.Context) {
		return func(ctx context.Context) {
			s := sim.Seq()
			rg.starts = append(rg.starts, s)
			rg.startAt = append(rg.startAt, int64(sim.Now()))
			r.Logf("f%d starts #%d", rg.id, s)
			r.Hist("start", rg.id)
			if stopRet != 0 {
				r.Violate("C17", "start-after-stopandwait/"+kindName(rg.kind), "f%d (%s) started (#%d) after StopAndWait had returned (#%d)", rg.id, kindName(rg.kind), s, stopRet)
			}
			if ctx.Err() != nil {
				// the group has been stopped (or its parent context ended): the unchanged library looks
				// at the context before every call, so one more start can slip through, not fifty
				if rg.deadStarts++; rg.deadStarts > 50 {
					r.Violate("C17", "keeps-starting-after-stop/"+kindName(rg.kind), "f%d (%s) has been started %d times with the group's context already ended; StopAndWait cannot return while that goes on", rg.id, kindName(rg.kind), rg.deadStarts)
					panic(sim.Killed)
				}
			}
			rg.running++
			if rg.running > 1 {
				r.Violate("C17", "overlapping-runs/"+kindName(rg.kind), "two runs of f%d (%s) overlap", rg.id, kindName(rg.kind))
			}
			switch rg.kind {
			case 1:
				r.Probe("periodic-ran")
			case 0:
				r.Probe("do-ran")
			}
			if rg.runTime > 0 {
				if rg.respect {
					WaitDone(ctx, rg.runTime, "f-run")
				} else {
					sim.Sleep(rg.runTime, "f-run")
				}
			} else {
				sim.Yield("f-run")
			}
			if rg.nestDo && !rg.nested && (!settled || triggerersActive()) {
				// the function registers another function with the same group from inside its run
				rg.nestDo = false
				r.Probe("do-from-inside-a-run")
				child := &groupReg{id: 100 + rg.id, kind: 0, nested: true, respect: true, runTime: []time.Duration{0, 5 * time.Millisecond, 30 * time.Millisecond}[r.Choose(3, "nested-runtime")]}
				regs = append(regs, child)
				child.regInv = sim.Seq()
				child.regAt = int64(sim.Now())
				r.Logf("f%d registers nested f%d #%d", rg.id, child.id, child.regInv)
				g.Do(mkF(child))
				child.regRet = sim.Seq()
				child.registered = true
			}
			if rg.selfTrig > 0 && rg.trigger != nil && (!settled || triggerersActive()) {
				// the function asks for another run of itself (once)
				rg.selfTrig--
				r.Probe("f-triggers-itself")
				ts := sim.Seq()
				if !stopped() {
					rg.trigCalls = append(rg.trigCalls, ts)
				}
				r.Logf("f%d triggers itself #%d", rg.id, ts)
				rg.trigger()
			}
			rg.running--
			e := sim.Seq()
			rg.ends = append(rg.ends, e)
			r.Logf("f%d ends #%d", rg.id, e)
			if stopRet != 0 {
				r.Violate("C17", "running-after-stopandwait/"+kindName(rg.kind), "f%d (%s) was still running (ended #%d) after StopAndWait had returned (#%d)", rg.id, kindName(rg.kind), e, stopRet)
			}
		}
	}

	registrarsDone := 0
	for _, rg := range regs {
		rg := rg
		sim.GoNamed(fmt.Sprintf("registrar%d", rg.id), func() {
			defer func() { registrarsDone++ }()
			if rg.delay > 0 {
				sim.Sleep(rg.delay, "registrar-delay")
			}
			if rg.raceStop {
				sim.WaitUntil("registrar-wait-stop", func() bool { return anyStopInv != 0 || parent.Dead() })
			}
			Spin(rg.spin, "registrar-pace")
			sim.Yield("register")
			rg.regInv = sim.Seq()
			rg.regAt = int64(sim.Now())
			if anyStopInv != 0 {
				if stopRet != 0 || true {
					r.Probe("registration-after-stop")
				}
			}
			r.Logf("register f%d kind=%s interval=%v jitter=%v run=%v #%d", rg.id, kindName(rg.kind), rg.interval, rg.jitter, rg.runTime, rg.regInv)
			f := mkF(rg)
			sim.Self().Label = "register " + kindName(rg.kind)
			switch rg.kind {
			case 0:
				g.Do(f)
			case 1:
				g.Periodic(rg.interval, rg.jitter, f)
			case 2:
				rg.trigger = g.Trigger(f)
			case 3:
				rg.trigger = g.PeriodicOrTrigger(rg.interval, rg.jitter, f)
			}
			sim.Self().Label = ""
			rg.regRet = sim.Seq()
			rg.registered = true
			if anyStopInv != 0 && anyStopInv > rg.regInv {
				r.Probe("registration-racing-stop")
			}
		})
	}
	// triggerers
	ntrig := r.Choose(3, "triggerers")
	triggerersDone := 0
	triggerersActive = func() bool { return triggerersDone < ntrig }
	for t := 0; t < ntrig; t++ {
		t := t
		calls := 1 + r.Choose(5, "trig-calls")
		type tc struct {
			reg    int
			spin   int
			sleep  time.Duration
			inARun bool // wait until a run of that registration is in progress, then trigger
		}
		var plan []tc
		for k := 0; k < calls; k++ {
			c := tc{reg: r.Choose(nreg, "trig-reg"), spin: r.Choose(5, "trig-spin")}
			if r.Choose(3, "trig-sleep") == 2 {
				c.sleep = time.Duration(1+r.Choose(10, "trig-sleep-d")) * 19 * time.Millisecond
			}
			c.inARun = settled && r.Choose(4, "trig-in-run") == 3
			plan = append(plan, c)
		}
		sim.GoNamed(fmt.Sprintf("triggerer%d", t), func() {
			defer func() { triggerersDone++ }()
			for _, c := range plan {
				if c.sleep > 0 {
					sim.Sleep(c.sleep, "trigger-sleep")
				}
				Spin(c.spin, "trigger-pace")
				rg := regs[c.reg]
				if rg.trigger == nil {
					continue
				}
				if c.inARun && rg.runTime > 0 && (rg.kind == 3 || len(rg.trigCalls) > 0) {
					// (a timer-started run of a PeriodicOrTrigger registration, or a run that an
					// earlier trigger started)
					for limit := sim.Now() + 4*time.Second; rg.running == 0 && !stopped() && sim.Now() < limit; {
						sim.Sleep(7*time.Millisecond, "trigger-in-run")
					}
				}
				sim.Yield("trigger")
				s := sim.Seq()
				if rg.running > 0 {
					r.Probe("trigger-during-run")
				}
				if n := len(rg.trigCalls); n > 0 && (len(rg.starts) == 0 || rg.starts[len(rg.starts)-1] < rg.trigCalls[n-1]) {
					r.Probe("trigger-with-slot-full")
				}
				if !stopped() {
					rg.trigCalls = append(rg.trigCalls, s)
				}
				r.Logf("trigger f%d #%d", rg.id, s)
				rg.trigger()
			}
		})
	}
	if parentKind == 4 {
		spin := r.Choose(10, "pc-spin")
		sleep := time.Duration(r.Choose(10, "pc-sleep")) * 29 * time.Millisecond
		sim.GoNamed("parent-canceller", func() {
			if settled {
				sim.WaitUntil("pc-wait", func() bool { return triggerersDone == ntrig && registrarsDone == nreg })
				sim.Sleep(2*longest+300*time.Millisecond+sleep, "pc-settle")
			} else {
				sim.Sleep(sleep, "pc-sleep")
				Spin(spin, "pc-pace")
			}
			r.Probe("parent-cancelled")
			r.Fault("parent_cancel")
			parent.Cancel()
		})
	}
	// a second stopper (stopMode 2): another task calls StopAndWait at about the same time; whichever
	// call returns first, nothing runs or starts after it
	stopping := false
	stopper2Done := stopMode != 2
	if stopMode == 2 {
		spin2 := r.Choose(6, "stop2-spin")
		sim.GoNamed("stopper2", func() {
			sim.WaitUntil("stopper2-wait", func() bool { return stopping || r.Failed() })
			if r.Failed() {
				return
			}
			Spin(spin2, "stopper2-pace")
			r.Probe("two-concurrent-stopandwait-calls")
			sim.Self().Label = "StopAndWait (second caller)"
			g.StopAndWait()
			sim.Self().Label = ""
			if stopRet == 0 {
				stopRet = sim.Seq()
			}
			r.Logf("the second StopAndWait returned #%d", sim.Seq())
			for _, rg := range regs {
				if rg.running > 0 {
					r.Violate("C17", "running-at-stopandwait-return/"+kindName(rg.kind), "the second caller's StopAndWait returned while f%d (%s) is running", rg.id, kindName(rg.kind))
				}
			}
			stopper2Done = true
		})
	}
	// stopper
	stopSpin := r.Choose(10, "stop-spin")
	stopSleep := time.Duration(r.Choose(12, "stop-sleep")) * 31 * time.Millisecond
	stopperDone := false
	settleChecked := false
	sim.GoNamed("stopper", func() {
		if settled {
			sim.WaitUntil("stopper-wait", func() bool { return triggerersDone == ntrig && registrarsDone == nreg })
			// settle: no new trigger calls; let more than twice the longest run (plus a period) pass
			sim.Sleep(2*longest+400*time.Millisecond+stopSleep, "stopper-settle")
			// Evaluate at an instant where nothing else can run; a run that is still in progress
			// (possible after injected stalls) is given time to complete before judging.
			for attempt := 0; ; attempt++ {
				sim.WaitIdle("stopper-idle")
				if parent.Dead() || r.Failed() {
					break
				}
				settleChecked = true
				if groupSettleOracle(r, regs, strict, attempt >= 6) {
					break
				}
				sim.Sleep(longest+time.Millisecond, "stopper-settle-more")
			}
		} else {
			if parentCancel && stopSpin%2 == 1 {
				// stop right after the parent context was cancelled (registrations may be racing that)
				sim.WaitUntil("stopper-wait-parent", func() bool { return parent.Dead() })
			} else {
				sim.Sleep(stopSleep, "stopper-sleep")
			}
			Spin(stopSpin, "stopper-pace")
			r.Fault("stop_race")
		}
		if r.Failed() {
			return
		}
		for _, rg := range regs {
			if rg.running > 0 {
				r.Probe("stop-while-f-running")
			}
			// "Periodic functions keep being invoked until the group is stopped": one that was
			// registered with no interval at all a good while ago has run by now
			if rg.kind == 1 && rg.interval <= 0 && rg.registered && strict && !parent.Dead() &&
				int64(sim.Now())-rg.regAt >= int64(50*time.Millisecond) && len(rg.starts) == 0 {
				r.Violate("C17", "periodic-never-ran/Periodic", "f%d was registered with Periodic(interval=%v) %v ago and has not been invoked once", rg.id, rg.interval, time.Duration(int64(sim.Now())-rg.regAt))
				return
			}
		}
		if stopMode == 1 {
			sim.Yield("Stop")
			anyStopInv = sim.Seq()
			r.Logf("Stop invoked #%d", anyStopInv)
			sim.Self().Label = "Stop"
			g.Stop()
			Spin(r.Choose(4, "between-stops"), "stopper-pace")
		}
		sim.Yield("StopAndWait")
		stopInv = sim.Seq()
		stopInvAt = int64(sim.Now())
		if anyStopInv == 0 {
			anyStopInv = stopInv
		}
		r.Logf("StopAndWait invoked #%d", stopInv)
		stopping = true
		sim.Self().Label = "StopAndWait"
		g.StopAndWait()
		sim.Self().Label = ""
		if stopRet == 0 { // (the second stopper may have returned first)
			stopRet = sim.Seq()
		}
		r.Logf("StopAndWait returned #%d", stopRet)
		r.Hist("stopped")
		for _, rg := range regs {
			if rg.running > 0 {
				r.Violate("C17", "running-at-stopandwait-return/"+kindName(rg.kind), "StopAndWait returned while f%d (%s) is running", rg.id, kindName(rg.kind))
			}
		}
		stopperDone = true
	})
	_ = stopInvAt
	_ = settleChecked
	// After the stop every timer is gone, so the system becomes fully quiescent; simulated time jumps
	// far beyond any period, so a function that were still scheduled would have shown up.
	sim.WaitStuck("group-phase1")
	if r.Failed() {
		return
	}
	if !stopperDone || !stopper2Done {
		r.Violate("C17", "stuck/StopAndWait", "StopAndWait never returns: %v", sim.TaskStates())
		return
	}
	if lt := LibraryTasks(); len(lt) > 0 {
		r.Violate("C17", "goroutines-left-after-stopandwait", "StopAndWait returned, nothing can run any more, but group goroutines are still alive: %s", taskNames(lt))
	}
}

func kindName(k int) string { return []string{"Do", "Periodic", "Trigger", "PeriodicOrTrigger"}[k] }

// groupSettleOracle runs after the settle phase, before any stop: every trigger call made so far
// must have been followed by a complete run that began after the call; periodic registrations must
// have kept running.
func groupSettleOracle(r *R, regs []*groupReg, strict bool, final bool) (decided bool) {
	now := int64(sim.Now())
	if !final {
		for _, rg := range regs {
			if rg.registered && rg.kind != 1 && rg.running > 0 {
				return false // a run is in progress: look again once it has had time to complete
			}
		}
	}
	decided = true
	for _, rg := range regs {
		if !rg.registered {
			continue
		}
		if rg.kind == 0 && rg.running > 0 {
			if !final {
				return false // its one run is under way: look again when it is over
			}
			// At the last look before the stop its one run is still under way (a function registered
			// from inside another run, scheduled late): it did start once; that it is over by the
			// time StopAndWait returns is the barrier oracle's business.
			if len(rg.starts) == 1 {
				continue
			}
		}
		if rg.kind == 0 && (len(rg.starts) != 1 || len(rg.ends) != 1) {
			r.Violate("C17", "do-not-run-once", "Do's function ran %d times (completed %d) while the group was running", len(rg.starts), len(rg.ends))
			return
		}
		if rg.kind == 2 || rg.kind == 3 {
			for _, tc := range rg.trigCalls {
				if tc < rg.regRet {
					continue
				}
				ok := false
				for i, s := range rg.starts {
					if s > tc && i < len(rg.ends) {
						ok = true
						break
					}
				}
				if !ok && rg.running > 0 && !final {
					return false
				}
				if !ok {
					r.Violate("C17", "trigger-lost/"+kindName(rg.kind), "trigger call #%d of f%d (%s) was not followed by a complete run beginning after it (starts %v, ends %v)", tc, rg.id, kindName(rg.kind), rg.starts, rg.ends)
					return
				}
			}
			if rg.kind == 2 && len(rg.trigCalls) == 0 && len(rg.starts) > 0 {
				// a Trigger function must not run by itself
				r.Violate("C17", "trigger-ran-unprompted", "f%d (Trigger) ran %d times without any trigger call", rg.id, len(rg.starts))
				return
			}
		}
		if rg.kind == 3 && len(rg.starts) > 0 {
			if len(rg.trigCalls) > 0 {
				r.Probe("periodic-or-trigger-by-trigger")
			}
			if len(rg.starts) > len(rg.trigCalls) {
				r.Probe("periodic-or-trigger-by-timer")
			}
		}
		if (rg.kind == 1 || rg.kind == 3) && strict {
			window := now - rg.regAt
			per := int64(rg.interval + rg.jitter + rg.runTime)
			want := int(window/per) - 1
			if len(rg.starts) < want {
				r.Violate("C17", "periodic-too-few-runs/"+kindName(rg.kind), "f%d (%s, interval %v, jitter %v, run time %v) ran only %d times in a fault-free window of %v; at least %d expected", rg.id, kindName(rg.kind), rg.interval, rg.jitter, rg.runTime, len(rg.starts), time.Duration(window), want)
				return
			}
		}
	}
	return true
}
