package worlds

import (
	"math"
	"github.com/bradenaw/juniper/container/xheap"
	"github.com/bradenaw/juniper/iterator"
)

// World `heap` (C05, C15): a run drives either an xheap.Heap (multiset model) or an
// xheap.PriorityQueue (key -> priority map model) through a seeded history, with few distinct
// priorities (many ties) and ascending or reversed orders given as less or as compare. When C15 is
// the property being checked, up to three live iterators (Heap.Iterate / PriorityQueue.Iterate)
// take single Next calls interleaved by the tape with every kind of modification. When C05 is
// being checked the live iterators are off (they only read; their oracle belongs to C15).
//
// There is no hook into the heap array. Where generation wants array positions (remove the first /
// last / a leaf / an inner element) it reads the array order through Iterate on the unchanged
// queue, which is itself checked against the model every time.

func init() {
	Register(&World{Name: "heap", Props: []string{"C05", "C15"}, Concurrent: false, Run: heapWorld})
	ExpectedProbes["heap"] = []string{
		"remove-last-array-element", "remove-replacement-sifts-up", "remove-replacement-sifts-down",
		"remove-root", "remove-absent", "update-new-key", "update-existing-lower", "update-existing-higher",
		"update-existing-equal", "update-moves-up", "update-moves-down", "init-duplicate-keys",
		"crash-pop-empty", "crash-peek-empty", "pop-among-ties", "heap-init-slice",
	}
	ExpectedProbes["heap/C15"] = []string{"iterator-before-any-other-operation", "second-container-of-the-same-type", 
		"update-reorders-under-iter", "push-under-iter", "pop-under-iter", "remove-under-iter",
		"grow-shrink-under-iter", "iter-panicked", "iter-called-again-after-panic", "iter-exhausted-clean", "iter-gen-wrap",
	}
}

type hpItem struct{ p, id int }

const (
	hpPush = iota // Heap: Push; queue: Update
	hpPop
	hpPeek
	hpLen
	hpGrow
	hpShrink  // Heap only
	hpCollect // Iterate in one go
	hpRemove  // queue only
	hpContains
	hpPriority
	hpIterNext
	hpNumOps
)

var hpOpName = [...]string{"Push", "Pop", "Peek", "Len", "Grow", "Shrink", "Iterate", "Remove", "Contains", "Priority", "IterNext"}

const (
	hpmAdd = 1 << iota
	hpmRemove
	hpmUpdate // priority of an existing key replaced (no element added or removed)
	hpmCap    // Grow / Shrink
)

func hpCause(mask uint8) string {
	switch {
	case mask&hpmAdd != 0:
		return "add"
	case mask&hpmRemove != 0:
		return "remove"
	case mask&hpmUpdate != 0:
		return "update-existing"
	case mask&hpmCap != 0:
		return "grow-shrink"
	}
	return "nothing"
}

// hpIter is a live iterator; elements are identified by id (Heap: item id, queue: key).
type hpIter struct {
	next      func() (id, p int, ok bool)
	id        int
	s0, s1    map[int]int // element -> priority at creation / at the first Next
	v0, v1    bool
	seen      map[int]bool
	started   bool
	exhausted bool
	yielded   int
	addRem    uint8
	since     uint8 // kinds of modification since creation / since the first Next (signature naming)
	sinceFst  uint8
	touched   bool
	poisoned  bool // has panicked once
}

type hpW struct {
	wrapped bool
	r     *R
	c15   bool
	queue bool
	pfx   string // "heap" or "pq": signature prefix
	order int
	nPrio int
	cnt   []int // held elements per priority
	n     int

	h      xheap.Heap[hpItem]
	// a second container of the same type in the same process (C15): what it does - reallocating
	// included - is none of the first one's iterators' business
	otherH    xheap.Heap[hpItem]
	otherQ    xheap.PriorityQueue[int, int]
	otherMade bool
	otherN    int
	held   map[int]int // Heap: id -> priority
	nextID int
	maxLen int

	q     xheap.PriorityQueue[int, int]
	nKeys int
	has   []bool
	prio  []int

	lastPopP int // priority of the element the last Pop returned

	arr   []int // queue: keys in array order as last read through Iterate; nil = unknown
	iters []*hpIter
	nIter int
	// generation profile (C15): in some runs keep Update of an existing key away from iterators
	// that are under way (DESIGN.md §5 suspects it is not fail-fast)
	avoidUpdate bool
	// coarse: distinct priority values may be equivalent under the run's order
	coarse bool
}

// less is the order of the run on priorities.
func (w *hpW) less(a, b int) bool {
	if w.coarse {
		// a coarse order: priorities 2j and 2j+1 are distinct values that tie
		a, b = a>>1, b>>1
	}
	if w.order&1 == 1 {
		return a > b
	}
	return a < b
}

// pickPrio returns a priority that is less (or, with lesser=false, greater) than cur in the run's
// order, or dflt if there is none.
func (w *hpW) pickPrio(cur int, lesser bool, dflt int) int {
	below := lesser == (w.order&1 == 0) // numerically below cur
	if below {
		if cur == 0 {
			return dflt
		}
		return w.r.Choose(cur, "prio-rel")
	}
	if cur >= w.nPrio-1 {
		return dflt
	}
	return cur + 1 + w.r.Choose(w.nPrio-1-cur, "prio-rel")
}

// minimal reports whether no held element has a priority less than p.
func (w *hpW) minimal(p int) bool {
	for q := 0; q < w.nPrio; q++ {
		if w.cnt[q] > 0 && w.less(q, p) {
			return false
		}
	}
	return true
}

func (w *hpW) liveUnfinished(startedOnly bool) bool {
	for _, it := range w.iters {
		if !it.exhausted && (it.started || !startedOnly) {
			return true
		}
	}
	return false
}

func (w *hpW) modified(mod uint8) {
	w.arr = nil
	if len(w.iters) == 0 {
		return
	}
	r := w.r
	for _, it := range w.iters {
		it.touched = true
		it.since |= mod
		if it.started {
			it.sinceFst |= mod
		}
		if mod&(hpmAdd|hpmRemove) != 0 {
			it.addRem |= mod
		}
	}
	if w.liveUnfinished(true) {
		switch mod {
		case hpmAdd:
			r.Probe("push-under-iter")
		case hpmRemove:
			r.Probe("remove-under-iter")
		case hpmCap:
			r.Probe("grow-shrink-under-iter")
		}
	}
}

func (w *hpW) state(op, a, b int) {
	nc := w.n
	if nc > 4 {
		nc = 4
		if w.n > 16 {
			nc = 5
		}
		if w.n > 128 {
			nc = 6
		}
	}
	h := uint64(0)
	if w.queue {
		h = 1
	}
	h = h*4 + uint64(w.order)
	h = h*8 + uint64(nc)
	h = h*16 + uint64(op)
	h = h*8 + uint64(a)
	h = h*8 + uint64(b)
	w.r.State(h)
}

// ---- panics as crash points ---------------------------------------------------------------------

func hpCatch(f func()) (panicked bool) {
	defer func() {
		if p := recover(); p != nil {
			passThrough(p)
			panicked = true
		}
	}()
	f()
	return
}

// ---- Heap mode ----------------------------------------------------------------------------------

func (w *hpW) newItem() hpItem {
	w.nextID++
	return hpItem{p: w.r.Choose(w.nPrio, "prio"), id: w.nextID}
}

func (w *hpW) heapInit() {
	r := w.r
	var initial []hpItem
	k := []int{0, 1, 2, 3, 7, 16, 33}[r.Choose(7, "init-len")]
	for i := 0; i < k; i++ {
		it := w.newItem()
		initial = append(initial, it)
		w.held[it.id] = it.p
		w.cnt[it.p]++
		w.n++
	}
	if k > 0 {
		r.Probe("heap-init-slice")
	}
	lessFn := func(a, b hpItem) bool { return w.less(a.p, b.p) }
	// a three-way compare may return any negative/positive number, not just -1/+1
	neg, pos := cmpMagnitudes(r)
	cmpFn := func(a, b hpItem) int {
		switch {
		case w.less(a.p, b.p):
			return neg
		case w.less(b.p, a.p):
			return pos
		}
		return 0
	}
	if w.order >= 2 {
		w.h = xheap.NewCmp(cmpFn, initial)
	} else {
		w.h = xheap.New(lessFn, initial)
	}
	if r.Trace {
		r.Logf("Heap built with %d initial items %v, order=%d", k, initial, w.order)
	}
}

func (w *hpW) heapOp(op int) {
	r := w.r
	if r.Failed() {
		return
	}
	r.Ops++
	name := hpOpName[op]
	switch op {
	case hpPush:
		it := w.newItem()
		w.state(op, 0, 0)
		w.h.Push(it)
		w.held[it.id] = it.p
		w.cnt[it.p]++
		w.n++
		w.modified(hpmAdd)
		r.Hist(op, it.p)
		if r.Trace {
			r.Logf("Push(%v)", it)
		}
	case hpPop, hpPeek:
		w.state(op, 0, 0)
		var got hpItem
		panicked := hpCatch(func() {
			if op == hpPop {
				got = w.h.Pop()
			} else {
				got = w.h.Peek()
			}
		})
		if r.Trace {
			r.Logf("%s() -> %v panicked=%v", name, got, panicked)
		}
		r.Hist(op, got.p, got.id, panicked)
		if w.n == 0 {
			if !panicked {
				r.Violate("C05", "heap/missing-panic/"+name, "%s on an empty heap returned %v; the documented behaviour is a panic", name, got)
				return
			}
			r.Fault("panic_expected")
			if op == hpPop {
				r.Probe("crash-pop-empty")
			} else {
				r.Probe("crash-peek-empty")
			}
			for _, it := range w.iters {
				it.touched = true
			}
			break
		}
		if panicked {
			r.Violate("C05", "heap/unexpected-panic/"+name, "%s panicked on a heap of %d items", name, w.n)
			return
		}
		if p, ok := w.held[got.id]; !ok || p != got.p {
			r.Violate("C05", "heap/"+name+"-returned-item-not-held", "%s returned %v, which the heap does not hold", name, got)
			return
		}
		if !w.minimal(got.p) {
			r.Violate("C05", "heap/"+name+"-not-minimal", "%s returned %v although a held item is less (held per priority: %v, order %d)", name, got, w.cnt, w.order)
			return
		}
		if op == hpPop {
			if w.cnt[got.p] > 1 {
				r.Probe("pop-among-ties")
			}
			delete(w.held, got.id)
			w.lastPopP = got.p
			w.cnt[got.p]--
			w.n--
			w.modified(hpmRemove)
			if w.liveUnfinished(true) {
				r.Probe("pop-under-iter")
			}
		}
	case hpLen:
		w.state(op, 0, 0)
		// observed below
	case hpGrow, hpShrink:
		k := []int{0, 1, 5, 40}[r.Choose(4, "cap-arg")]
		w.state(op, 0, 0)
		if op == hpGrow {
			w.h.Grow(k)
		} else {
			w.h.Shrink(k)
		}
		w.modified(hpmCap)
		r.Hist(op, k)
		if r.Trace {
			r.Logf("%s(%d)", name, k)
		}
	case hpCollect:
		w.state(op, 0, 0)
		w.heapCollect()
	}
	w.heapObserve(name)
}

// heapObserve: Len and Peek after every step.
func (w *hpW) heapObserve(after string) {
	r := w.r
	if r.Failed() {
		return
	}
	if l := w.h.Len(); l != w.n {
		r.Violate("C05", "heap/len-mismatch/after-"+after, "after %s: Len() = %d, the model holds %d items", after, l, w.n)
		return
	}
	if w.n == 0 {
		return
	}
	var got hpItem
	if hpCatch(func() { got = w.h.Peek() }) {
		r.Violate("C05", "heap/unexpected-panic/Peek", "after %s: Peek panicked on a heap of %d items", after, w.n)
		return
	}
	if p, ok := w.held[got.id]; !ok || p != got.p {
		r.Violate("C05", "heap/peek-item-not-held/after-"+after, "after %s: Peek() = %v, which the heap does not hold", after, got)
		return
	}
	if !w.minimal(got.p) {
		r.Violate("C05", "heap/peek-not-minimal/after-"+after, "after %s: Peek() = %v although a held item is less (held per priority: %v, order %d)", after, got, w.cnt, w.order)
	}
}

func (w *hpW) heapCollect() {
	r := w.r
	it := w.h.Iterate()
	seen := map[int]bool{}
	for j := 0; ; j++ {
		var x hpItem
		var ok bool
		if hpCatch(func() { x, ok = it.Next() }) {
			r.Violate("C15", "heap-iter/panic-on-unchanged", "an iterator over an unchanged heap of %d items panicked at its Next number %d", w.n, j)
			return
		}
		if !ok {
			if j != w.n {
				r.Violate("C15", "heap-iter/unchanged-short", "an iterator over an unchanged heap of %d items reported exhaustion after %d items", w.n, j)
			}
			break
		}
		if p, held := w.held[x.id]; !held || p != x.p || seen[x.id] {
			r.Violate("C15", "heap-iter/unchanged-wrong-item", "an iterator over an unchanged heap yielded %v (held=%v, yielded before=%v)", x, held, seen[x.id])
			return
		}
		seen[x.id] = true
	}
	r.Hist(hpCollect, w.n)
	if r.Trace {
		r.Logf("Iterate() collected %d items", w.n)
	}
}

// ---- queue mode ---------------------------------------------------------------------------------

func (w *hpW) pqInit() {
	r := w.r
	k := []int{0, 1, 2, 5, 12, 30}[r.Choose(6, "init-len")]
	var initial []xheap.KP[int, int]
	allowed := make([][]int, w.nKeys)
	dup := false
	for i := 0; i < k; i++ {
		key := r.Choose(w.nKeys, "init-key")
		p := r.Choose(w.nPrio, "prio")
		if len(allowed[key]) > 0 {
			dup = true
		}
		allowed[key] = append(allowed[key], p)
		initial = append(initial, xheap.KP[int, int]{K: key, P: p})
	}
	if dup {
		r.Probe("init-duplicate-keys")
	}
	if r.Trace {
		r.Logf("PriorityQueue built from %v, order=%d keys=%d priorities=%d", initial, w.order, w.nKeys, w.nPrio)
	}
	if w.order >= 2 {
		neg, pos := cmpMagnitudes(r)
		w.q = xheap.NewPriorityQueueCmp(func(a, b int) int {
			switch {
			case w.less(a, b):
				return neg
			case w.less(b, a):
				return pos
			}
			return 0
		}, initial)
	} else {
		w.q = xheap.NewPriorityQueue(func(a, b int) bool { return w.less(a, b) }, initial)
	}
	// each distinct key once, with a priority one of its occurrences had
	distinct := 0
	for key := range allowed {
		if len(allowed[key]) > 0 {
			distinct++
		}
	}
	if l := w.q.Len(); l != distinct {
		r.Violate("C05", "pq/init-len-not-distinct-keys", "a queue built from a list with %d distinct keys (%d entries) has Len() = %d", distinct, k, l)
		return
	}
	for key := range allowed {
		c := w.q.Contains(key)
		if c != (len(allowed[key]) > 0) {
			r.Violate("C05", "pq/init-contains-mismatch", "after construction Contains(%d) = %v, the list had %d entries for that key", key, c, len(allowed[key]))
			return
		}
		if !c {
			continue
		}
		p := w.q.Priority(key)
		ok := false
		for _, a := range allowed[key] {
			if a == p {
				ok = true
			}
		}
		if !ok {
			r.Violate("C05", "pq/init-priority-not-from-list", "after construction Priority(%d) = %d, the list had priorities %v for that key", key, p, allowed[key])
			return
		}
		w.has[key] = true
		w.prio[key] = p
		w.cnt[p]++
		w.n++
		r.Hist(key, p)
	}
}

// readArray learns the array order of the queue through Iterate on the unchanged queue (checked).
func (w *hpW) readArray() bool {
	if w.arr != nil {
		return true
	}
	r := w.r
	arr := make([]int, 0, w.n)
	j := 0
	var seen uint64
	status := func() (status int) { // 0 fine, 1 panicked, 2 short, 3 wrong item
		defer func() {
			if p := recover(); p != nil {
				passThrough(p)
				status = 1
			}
		}()
		it := w.q.Iterate()
		for ; ; j++ {
			k, ok := it.Next()
			if !ok {
				if j != w.n {
					return 2
				}
				return 0
			}
			if k < 0 || k >= w.nKeys || !w.has[k] || seen&(1<<uint(k)) != 0 {
				arr = append(arr, k)
				return 3
			}
			seen |= 1 << uint(k)
			arr = append(arr, k)
		}
	}()
	switch status {
	case 1:
		r.Violate("C15", "pq-iter/panic-on-unchanged", "an iterator over an unchanged queue of %d keys panicked at its Next number %d", w.n, j)
		return false
	case 2:
		r.Violate("C15", "pq-iter/unchanged-short", "an iterator over an unchanged queue of %d keys reported exhaustion after %d keys", w.n, j)
		return false
	case 3:
		r.Violate("C15", "pq-iter/unchanged-wrong-item", "an iterator over an unchanged queue yielded a key that is not held or was yielded before (last of the yields so far: %v)", arr)
		return false
	}
	w.arr = arr
	return true
}

func (w *hpW) posOf(key int) int {
	for i, k := range w.arr {
		if k == key {
			return i
		}
	}
	return -1
}

// posClass: 0 absent, 1 root, 2 last, 3 leaf, 4 inner
func (w *hpW) posClass(i int) int {
	switch {
	case i < 0:
		return 0
	case i == 0:
		return 1
	case i == len(w.arr)-1:
		return 2
	case 2*i+1 >= len(w.arr):
		return 3
	}
	return 4
}

// pickKey chooses a key by array position class (needs w.arr); class 5 = an absent key.
func (w *hpW) pickKey(class int) int {
	r := w.r
	n := len(w.arr)
	if class == 5 || n == 0 {
		start := r.Choose(w.nKeys, "absent-key")
		for d := 0; d < w.nKeys; d++ {
			k := (start + d) % w.nKeys
			if !w.has[k] {
				return k
			}
		}
		class = 0
		if n == 0 {
			return start
		}
	}
	switch class {
	case 1:
		return w.arr[0]
	case 2:
		return w.arr[n-1]
	case 3:
		return w.arr[n/2+r.Choose(n-n/2, "leaf")]
	case 4:
		if n/2 > 1 {
			return w.arr[1+r.Choose(n/2-1, "inner")]
		}
	}
	return w.arr[r.Choose(n, "any-pos")]
}

func (w *hpW) pqOp(op int) {
	r := w.r
	if r.Failed() {
		return
	}
	r.Ops++
	name := hpOpName[op]
	switch op {
	case hpPush: // Update
		name = "Update"
		if !w.readArray() {
			return
		}
		class := r.Choose(5, "upd-class") // 0 random, 1 new key, 2 lower, 3 higher, 4 equal
		var key int
		if class == 1 {
			key = w.pickKey(5)
		} else if class == 0 {
			key = r.Choose(w.nKeys, "key")
		} else {
			key = w.pickKey(r.Choose(5, "pos-class"))
		}
		p := r.Choose(w.nPrio, "prio")
		if w.has[key] {
			cur := w.prio[key]
			switch class {
			case 2:
				if !w.less(p, cur) {
					p = w.pickPrio(cur, true, p)
				}
			case 3:
				if !w.less(cur, p) {
					p = w.pickPrio(cur, false, p)
				}
			case 4:
				p = cur
			}
		}
		rel := 0
		i := w.posOf(key)
		if w.has[key] {
			cur := w.prio[key]
			switch {
			case w.less(p, cur):
				rel = 1
				r.Probe("update-existing-lower")
			case w.less(cur, p):
				rel = 2
				r.Probe("update-existing-higher")
			default:
				rel = 3
				r.Probe("update-existing-equal")
			}
			// does the array have to be reordered?
			moves := false
			if i > 0 && w.less(p, w.prio[w.arr[(i-1)/2]]) {
				r.Probe("update-moves-up")
				moves = true
			}
			for c := 2*i + 1; c <= 2*i+2 && c < len(w.arr); c++ {
				if w.less(w.prio[w.arr[c]], p) {
					r.Probe("update-moves-down")
					moves = true
					break
				}
			}
			if w.c15 && w.liveUnfinished(true) {
				if w.avoidUpdate {
					if r.Trace {
						r.Logf("drop all iterators")
					}
					w.iters = w.iters[:0]
				} else if moves {
					r.Probe("update-reorders-under-iter")
				}
			}
		} else {
			r.Probe("update-new-key")
		}
		w.state(op, w.posClass(i), rel)
		w.q.Update(key, p)
		r.Hist(op, key, p)
		if r.Trace {
			r.Logf("Update(k%d, %d)   (array position %d of %d, relation %d)", key, p, i, len(w.arr), rel)
		}
		if w.has[key] {
			w.cnt[w.prio[key]]--
			w.cnt[p]++
			w.prio[key] = p
			w.modified(hpmUpdate)
		} else {
			w.has[key] = true
			w.prio[key] = p
			w.cnt[p]++
			w.n++
			w.modified(hpmAdd)
		}
	case hpRemove:
		if !w.readArray() {
			return
		}
		key := w.pickKey(r.Choose(6, "rm-class"))
		i := w.posOf(key)
		n := len(w.arr)
		if i < 0 {
			r.Probe("remove-absent")
		} else {
			if i == 0 {
				r.Probe("remove-root")
			}
			if i == n-1 {
				r.Probe("remove-last-array-element")
			} else {
				moved := w.prio[w.arr[n-1]]
				if i > 0 && w.less(moved, w.prio[w.arr[(i-1)/2]]) {
					r.Probe("remove-replacement-sifts-up")
				}
				for c := 2*i + 1; c <= 2*i+2 && c < n-1; c++ {
					if w.less(w.prio[w.arr[c]], moved) {
						r.Probe("remove-replacement-sifts-down")
						break
					}
				}
			}
		}
		w.state(op, w.posClass(i), 0)
		if hpCatch(func() { w.q.Remove(key) }) {
			r.Violate("C05", "pq/unexpected-panic/Remove", "Remove(k%d) panicked (model: held=%v, %d keys)", key, w.has[key], w.n)
			return
		}
		r.Hist(op, key)
		if r.Trace {
			r.Logf("Remove(k%d)   (array position %d of %d)", key, i, n)
		}
		if w.has[key] {
			w.has[key] = false
			w.cnt[w.prio[key]]--
			w.n--
			w.modified(hpmRemove)
		} else {
			for _, it := range w.iters {
				it.touched = true
			}
		}
	case hpPop, hpPeek:
		w.state(op, 0, 0)
		got := -1
		panicked := hpCatch(func() {
			if op == hpPop {
				got = w.q.Pop()
			} else {
				got = w.q.Peek()
			}
		})
		if r.Trace {
			r.Logf("%s() -> k%d panicked=%v", name, got, panicked)
		}
		r.Hist(op, got, panicked)
		if w.n == 0 {
			if !panicked {
				r.Violate("C05", "pq/missing-panic/"+name, "%s on an empty queue returned k%d; the documented behaviour is a panic", name, got)
				return
			}
			r.Fault("panic_expected")
			if op == hpPop {
				r.Probe("crash-pop-empty")
			} else {
				r.Probe("crash-peek-empty")
			}
			for _, it := range w.iters {
				it.touched = true
			}
			break
		}
		if panicked {
			r.Violate("C05", "pq/unexpected-panic/"+name, "%s panicked on a queue of %d keys", name, w.n)
			return
		}
		if got < 0 || got >= w.nKeys || !w.has[got] {
			r.Violate("C05", "pq/"+name+"-returned-key-not-held", "%s returned k%d, which the queue does not hold", name, got)
			return
		}
		if !w.minimal(w.prio[got]) {
			r.Violate("C05", "pq/"+name+"-not-minimal", "%s returned k%d (priority %d) although a held key has a lesser priority (held per priority: %v, order %d)", name, got, w.prio[got], w.cnt, w.order)
			return
		}
		if op == hpPop {
			if w.cnt[w.prio[got]] > 1 {
				r.Probe("pop-among-ties")
			}
			w.has[got] = false
			w.lastPopP = w.prio[got]
			w.cnt[w.prio[got]]--
			w.n--
			w.modified(hpmRemove)
			if w.liveUnfinished(true) {
				r.Probe("pop-under-iter")
			}
		}
	case hpGrow:
		k := []int{0, 1, 5, 40}[r.Choose(4, "cap-arg")]
		w.state(op, 0, 0)
		w.q.Grow(k)
		arr := w.arr
		w.modified(hpmCap)
		w.arr = arr // Grow does not reorder
		r.Hist(op, k)
		if r.Trace {
			r.Logf("Grow(%d)", k)
		}
	case hpCollect:
		w.state(op, 0, 0)
		w.arr = nil
		if !w.readArray() {
			return
		}
		r.Hist(op, w.n)
		if r.Trace {
			r.Logf("Iterate() collected %v", w.arr)
		}
	default: // Len / Contains / Priority: part of the full observation below
		w.state(op, 0, 0)
	}
	w.pqObserve(name)
}

// pqObserve is the full observation after every step: Len, Contains and Priority of every key of
// the universe, and Peek minimal.
func (w *hpW) pqObserve(after string) {
	r := w.r
	if r.Failed() {
		return
	}
	defer func() {
		if p := recover(); p != nil {
			passThrough(p)
			r.Violate("C05", "pq/observer-panicked/after-"+after, "after %s: Len/Contains/Priority/Peek panicked on a queue that the model says holds %d keys: %v", after, w.n, p)
		}
	}()
	if l := w.q.Len(); l != w.n {
		r.Violate("C05", "pq/len-mismatch/after-"+after, "after %s: Len() = %d, the model holds %d keys", after, l, w.n)
		return
	}
	for k := 0; k < w.nKeys; k++ {
		c := w.q.Contains(k)
		if c != w.has[k] {
			r.Violate("C05", "pq/contains-mismatch/after-"+after, "after %s: Contains(k%d) = %v, the model says %v", after, k, c, w.has[k])
			return
		}
		if p := w.q.Priority(k); c && p != w.prio[k] {
			r.Violate("C05", "pq/priority-mismatch/after-"+after, "after %s: Priority(k%d) = %d, the model says %d", after, k, p, w.prio[k])
			return
		} else if !c && p != 0 {
			r.Violate("C05", "pq/priority-of-absent-key/after-"+after, "after %s: Priority(k%d) = %d for a key the queue does not hold (documented: the zero value)", after, k, p)
			return
		}
	}
	if w.n > 0 {
		got := w.q.Peek()
		if got < 0 || got >= w.nKeys || !w.has[got] {
			r.Violate("C05", "pq/peek-key-not-held/after-"+after, "after %s: Peek() = k%d, which the queue does not hold", after, got)
			return
		}
		if !w.minimal(w.prio[got]) {
			r.Violate("C05", "pq/peek-not-minimal/after-"+after, "after %s: Peek() = k%d (priority %d) although a held key has a lesser priority (held per priority: %v, order %d)", after, got, w.prio[got], w.cnt, w.order)
		}
	}
}

// ---- live iterators (C15) -----------------------------------------------------------------------

func (w *hpW) snapshot() map[int]int {
	s := make(map[int]int, w.n)
	if w.queue {
		for k, h := range w.has {
			if h {
				s[k] = w.prio[k]
			}
		}
	} else {
		for id, p := range w.held {
			s[id] = p
		}
	}
	return s
}

func (w *hpW) newIter() {
	r := w.r
	w.nIter++
	it := &hpIter{id: w.nIter, v0: true, s0: w.snapshot(), seen: map[int]bool{}}
	if w.queue {
		var inner iterator.Iterator[int] = w.q.Iterate()
		it.next = func() (int, int, bool) {
			k, ok := inner.Next()
			return k, -1, ok
		}
	} else {
		inner := w.h.Iterate()
		it.next = func() (int, int, bool) {
			x, ok := inner.Next()
			return x.id, x.p, ok
		}
	}
	w.iters = append(w.iters, it)
	r.Ops++
	r.Hist("iter-new", it.id)
	if r.Trace {
		r.Logf("it%d := Iterate()   (%d elements held)", it.id, w.n)
	}
}

func (w *hpW) dropIter(k int) {
	w.iters = append(w.iters[:k], w.iters[k+1:]...)
}

func (w *hpW) iterNext(k int) {
	r := w.r
	if r.Failed() {
		return
	}
	it := w.iters[k]
	r.Ops++
	w.state(hpIterNext, 0, 0)
	var id, p int
	var ok bool
	panicked := hpCatch(func() { id, p, ok = it.next() })
	if r.Trace {
		switch {
		case panicked:
			r.Logf("it%d.Next() panicked", it.id)
		case ok && w.queue:
			r.Logf("it%d.Next() -> k%d", it.id, id)
		case ok:
			r.Logf("it%d.Next() -> {p=%d id=%d}", it.id, p, id)
		default:
			r.Logf("it%d.Next() -> exhausted", it.id)
		}
	}
	r.Hist("next", it.id, id, p, ok, panicked)
	pfx := w.pfx + "-iter/"
	if panicked {
		r.Probe("iter-panicked")
		if !it.touched {
			r.Violate("C15", pfx+"panic-on-unchanged", "iterator it%d panicked although no mutator was called since it was created", it.id)
		}
		// A panic does not end the obligation: a later call on the same iterator is still judged
		// (it may panic again; whatever it returns instead must still fit the snapshot).
		if it.poisoned {
			w.dropIter(k)
		} else {
			it.poisoned = true
			r.Probe("iter-called-again-after-panic")
			if r.Choose(2, "drain-after-panic") == 1 {
				// keep calling it: until it panics again (and is dropped) or reports exhaustion
				for n := 0; n < 40 && !r.Failed() && !it.exhausted; n++ {
					at := -1
					for q, o := range w.iters {
						if o == it {
							at = q
						}
					}
					if at < 0 {
						break
					}
					w.iterNext(at)
				}
			}
		}
		return
	}
	// modifications before the first Next are part of the snapshot taken there: blame what came
	// after it, if the iterator had started
	cause := hpCause(it.since)
	if it.started {
		cause = hpCause(it.sinceFst)
	}
	if it.exhausted {
		if ok {
			r.Violate("C15", pfx+"item-after-exhaustion", "iterator it%d yielded element %d after it had reported exhaustion", it.id, id)
		}
		return
	}
	if it.started && it.addRem != 0 && !it.poisoned {
		what := "reported exhaustion"
		if ok {
			what = "yielded an element"
		}
		r.Violate("C15", pfx+"no-panic-after-"+hpCause(it.addRem), "iterator it%d was under way (%d yielded, not exhausted) when an element was added or removed (%s); its next call must panic but it %s", it.id, it.yielded, hpCause(it.addRem), what)
		return
	}
	if !it.started {
		it.started = true
		it.s1 = w.snapshot()
		it.v1 = true
	}
	it.addRem = 0
	if ok {
		if it.seen[id] {
			r.Violate("C15", pfx+"element-twice-after-"+cause, "iterator it%d yielded element %d a second time (yield number %d; blamed modification: %s)", it.id, id, it.yielded, cause)
			return
		}
		in := func(s map[int]int) bool {
			q, held := s[id]
			return held && (w.queue || q == p)
		}
		a0 := it.v0 && in(it.s0)
		a1 := it.v1 && in(it.s1)
		if !a0 && !a1 {
			r.Violate("C15", pfx+"element-not-in-snapshot-after-"+cause, "iterator it%d yielded element %d (priority %d), which was held neither when the iterator was created nor at its first Next (blamed modification: %s)", it.id, id, p, cause)
			return
		}
		it.v0, it.v1 = a0, a1
		it.seen[id] = true
		it.yielded++
		return
	}
	j := it.yielded
	if !((it.v0 && j == len(it.s0)) || (it.v1 && j == len(it.s1))) {
		r.Violate("C15", pfx+"early-exhaustion-after-"+cause, "iterator it%d reported exhaustion after %d elements; %d were held when it was created and %d at its first Next", it.id, j, len(it.s0), len(it.s1))
		return
	}
	it.exhausted = true
	if !it.touched {
		r.Probe("iter-exhausted-clean")
	}
}

// genWrap: between two consecutive calls of one iterator that is under way, exactly 256 (rarely
// 65536) modifications are made - as many as a narrow modification counter needs to come round to
// the value the iterator remembers. Its next call must panic like after any other modification.
func (w *hpW) genWrap(k int) {
	r := w.r
	it := w.iters[k]
	w.iterNext(k)
	if r.Failed() || len(w.iters) <= k || w.iters[k] != it || it.exhausted || it.poisoned || !it.started {
		return
	}
	pairs := 128
	if r.Tier == "thorough" && r.Choose(8, "wrap-64k") == 7 {
		pairs = 32768
	}
	r.Probe("iter-gen-wrap")
	for i := 0; i < pairs && !r.Failed(); i++ {
		if w.queue {
			w.pqOp(hpPush)
			w.pqOp(hpPop)
		} else {
			w.heapOp(hpPush)
			w.heapOp(hpPop)
		}
	}
	if r.Failed() {
		return
	}
	for q, o := range w.iters {
		if o == it {
			w.iterNext(q)
		}
	}
}

// iterateFirst: the very first thing done with a freshly built container may be to iterate over it -
// before any Push, Pop or Peek. The reads that follow (the observation after construction peeks) do
// not change the container, so the iterator goes on undisturbed.
func (w *hpW) iterateFirst() {
	if w.r.Focus != "C15" || w.r.Failed() || w.r.Choose(3, "iterate-first") != 2 {
		return
	}
	w.r.Probe("iterator-before-any-other-operation")
	w.newIter()
	if len(w.iters) > 0 {
		w.iterNext(0)
	}
}

func (w *hpW) iterAction(preferNext bool) {
	r := w.r
	live := len(w.iters)
	if live > 0 && !w.wrapped && r.Choose(48, "gen-wrap") == 47 {
		w.wrapped = true // once per run
		w.genWrap(r.Choose(live, "iter-pick"))
		return
	}
	c := r.Choose(8, "iter-act")
	switch {
	case live == 0 || (c == 0 && live < 3 && !preferNext):
		if live >= 3 {
			w.dropIter(0)
		}
		w.newIter()
	case c == 1 && !preferNext:
		k := r.Choose(live, "iter-drop")
		if r.Trace {
			r.Logf("abandon it%d", w.iters[k].id)
		}
		w.dropIter(k)
	default:
		w.iterNext(r.Choose(live, "iter-pick"))
	}
}

// ---- generation ---------------------------------------------------------------------------------

const (
	hpPhMixed = iota
	hpPhFill
	hpPhDrain
	hpPhChurn   // queue: updates of existing keys and removes; heap: push/pop alternating
	hpPhIterate // C15 only
)

// otherChurn works on the second container: pushes, pops, Grow and Shrink.
func (w *hpW) otherChurn() {
	r := w.r
	if !w.otherMade {
		w.otherMade = true
		r.Probe("second-container-of-the-same-type")
		if w.queue {
			w.otherQ = xheap.NewPriorityQueue[int, int](func(a, b int) bool { return a < b }, nil)
		} else {
			w.otherH = xheap.New[hpItem](func(a, b hpItem) bool { return a.p < b.p }, nil)
		}
	}
	k := 1 + r.Choose(40, "other-k")
	switch r.Choose(4, "other-op") {
	case 0:
		for i := 0; i < k%7+1; i++ {
			w.otherN++
			if w.queue {
				w.otherQ.Update(-1000-w.otherN, -1000-w.otherN) // keys and priorities the first one never holds
			} else {
				w.otherH.Push(hpItem{id: -1000 - w.otherN, p: -1000 - w.otherN})
			}
		}
	case 1:
		if w.queue {
			if w.otherQ.Len() > 0 {
				w.otherQ.Pop()
			}
		} else if w.otherH.Len() > 0 {
			w.otherH.Pop()
		}
	case 2:
		if w.queue {
			w.otherQ.Grow(k)
		} else {
			w.otherH.Grow(k)
		}
	default:
		if !w.queue {
			w.otherH.Shrink(k % 5)
		}
	}
}

func (w *hpW) step(phase, k int) {
	r := w.r
	if w.c15 && r.Choose(10, "other-container") == 9 {
		w.otherChurn()
		return
	}
	if w.c15 {
		if phase == hpPhIterate {
			if r.Choose(8, "iter-phase") != 7 {
				w.iterAction(true)
				return
			}
		} else if r.Choose(4, "iter?") == 3 {
			w.iterAction(false)
			return
		}
	}
	op := -1
	if phase != hpPhMixed && phase != hpPhIterate && r.Choose(10, "bias") < 7 {
		switch phase {
		case hpPhFill:
			op = hpPush
		case hpPhDrain:
			op = hpPop
		case hpPhChurn:
			op = hpPush
			if k&1 == 1 {
				op = hpPop
				if w.queue {
					op = hpRemove
				}
			}
		}
	}
	if (op == hpPop || op == hpRemove) && w.n == 0 {
		op = -1 // a drain that has reached the bottom: do not spend the phase on empty pops
	}
	if w.queue {
		if op < 0 {
			op = []int{hpPush, hpPush, hpRemove, hpPop, hpPeek, hpLen, hpGrow, hpCollect, hpContains, hpPriority, hpRemove, hpPush}[r.Choose(12, "op")]
		}
		w.pqOp(op)
		return
	}
	if op < 0 {
		op = []int{hpPush, hpPop, hpPeek, hpLen, hpGrow, hpShrink, hpCollect, hpPush}[r.Choose(8, "op")]
	}
	if op == hpPush && w.n >= w.maxLen {
		op = hpPop
	}
	w.heapOp(op)
}

func heapWorld(r *R) {
	if r.Focus == "C05" && r.Choose(12, "odd-types") == 11 {
		heapOddTypes(r)
		return
	}
	w := &hpW{r: r, c15: r.Focus == "C15"}
	w.queue = r.Choose(2, "kind") == 1
	w.pfx = "heap"
	if w.queue {
		w.pfx = "pq"
	}
	sizes := []int{40, 300, 2000}
	if r.Tier == "thorough" {
		sizes = append(sizes, 20000)
	}
	maxOps := sizes[r.Choose(len(sizes), "history-len")]
	phaseMax := []int{6, 30, 150, 600}[r.Choose(4, "phase-max")]
	w.order = r.Choose(4, "order")
	w.coarse = r.Choose(3, "coarse-priorities") == 2
	w.nPrio = []int{3, 1, 2, 5, 16, 64}[r.Choose(6, "priorities")]
	w.cnt = make([]int, w.nPrio)
	nPhases := hpPhChurn + 1
	if w.c15 {
		nPhases = hpPhIterate + 1
		w.avoidUpdate = r.Choose(2, "profile") == 1
	}
	if w.queue {
		w.nKeys = []int{6, 1, 2, 3, 12, 24, 48, 64}[r.Choose(8, "keys")]
		w.has = make([]bool, w.nKeys)
		w.prio = make([]int, w.nKeys)
		w.pqInit()
		if r.Failed() {
			return
		}
		w.iterateFirst()
		w.pqObserve("construction")
	} else {
		w.held = map[int]int{}
		w.maxLen = []int{8, 40, 200, 1000}[r.Choose(4, "max-len")]
		w.heapInit()
		w.iterateFirst()
		w.heapObserve("construction")
	}
	if r.Trace {
		r.Logf("config: focus=%s queue=%v maxOps=%d order=%d priorities=%d keys=%d avoidUpdateUnderIter=%v", r.Focus, w.queue, maxOps, w.order, w.nPrio, w.nKeys, w.avoidUpdate)
	}
	for r.Ops < maxOps && !r.Failed() {
		phase := r.Choose(nPhases, "phase")
		plen := 1 + r.Choose(phaseMax, "phase-len")
		for k := 0; k < plen && r.Ops < maxOps && !r.Failed(); k++ {
			w.step(phase, k)
		}
	}
	if r.Failed() {
		return
	}
	// final drain: everything comes out, in non-decreasing order
	w.iters = nil
	if r.Trace {
		r.Logf("final drain of %d elements", w.n)
	}
	havePrev := false
	prev := 0
	for w.n > 0 && !r.Failed() {
		before := w.n
		if w.queue {
			w.pqOp(hpPop)
		} else {
			w.heapOp(hpPop)
		}
		if r.Failed() {
			return
		}
		if w.n != before-1 {
			r.Violate("C05", w.pfx+"/drain-stuck", "a Pop during the final drain did not reduce the number of held elements")
			return
		}
		p := w.lastPopP
		if havePrev && w.less(p, prev) {
			r.Violate("C05", w.pfx+"/drain-not-sorted", "the final drain returned priority %d after priority %d (order %d)", p, prev, w.order)
			return
		}
		prev, havePrev = p, true
	}
	if !r.Failed() {
		if w.queue {
			w.pqObserve("drain")
		} else {
			w.heapObserve("drain")
		}
	}
}

// cmpMagnitudes picks what a three-way compare returns for "less" and "greater": any negative and
// any positive number will do, the ones that cannot be negated or doubled included.
func cmpMagnitudes(r *R) (neg, pos int) {
	switch r.Choose(4, "cmp-magnitude") {
	case 0:
		return -1, 1
	case 1:
		return -7, 7
	case 2:
		return math.MinInt, math.MaxInt
	}
	return math.MinInt, 1
}
