package worlds

import (
	"sort"

	"github.com/bradenaw/juniper/container/xheap"
)

// heapOddTypes is a small side scenario of the heap world (1 run in 12 under C05): the same kind of
// history against a plain model, but with element / priority types the main scenario cannot have:
// slices (not comparable at run time - comparing two through an interface panics - and with a zero
// value the order function cannot look at). A library that compares elements other than through the
// user's order fails here and nowhere else.
func heapOddTypes(r *R) {
	r.Probe("odd-element-type")
	fail := func(sig, format string, args ...any) { r.Violate("C05", "oddtypes/"+sig, format, args...) }
	guard := func(op string, f func()) (ok bool) {
		defer func() {
			if p := recover(); p != nil {
				passThrough(p)
				fail("panic/"+op, "%s panicked with slice-typed elements or priorities: %v", op, p)
				ok = false
			}
		}()
		f()
		return true
	}
	less := func(a, b []int) bool { return a[0] < b[0] }
	cmp := func(a, b []int) int { return a[0] - b[0] }
	mk := func(p int) []int { return []int{p, -p} }
	steps := 15 + r.Choose(60, "odd-steps")
	if r.Choose(2, "odd-kind") == 0 {
		// ---- PriorityQueue[int, []int] ----
		const nKeys = 12
		prio := map[int]int{}
		var initial []xheap.KP[int, []int]
		for i, n := 0, r.Choose(6, "odd-init"); i < n; i++ {
			k, p := r.Choose(nKeys, "odd-key"), r.Choose(8, "odd-prio")
			if _, dup := prio[k]; dup {
				continue
			}
			prio[k] = p
			initial = append(initial, xheap.KP[int, []int]{K: k, P: mk(p)})
		}
		var q xheap.PriorityQueue[int, []int]
		if !guard("NewPriorityQueue", func() {
			if r.Choose(2, "odd-cmp") == 0 {
				q = xheap.NewPriorityQueue[int, []int](less, initial)
			} else {
				q = xheap.NewPriorityQueueCmp[int, []int](cmp, initial)
			}
		}) {
			return
		}
		minPrio := func() int {
			m := 1 << 30
			for _, p := range prio {
				if p < m {
					m = p
				}
			}
			return m
		}
		for s := 0; s < steps && !r.Failed(); s++ {
			r.Ops++
			k := r.Choose(nKeys, "odd-key")
			switch r.Choose(8, "odd-op") {
			case 0, 1, 2:
				p := r.Choose(8, "odd-prio")
				if old, held := prio[k]; held && r.Choose(3, "odd-same-prio") == 2 {
					p = old // re-submitting the priority the key already has
					r.Probe("odd-update-same-priority")
				}
				if !guard("Update", func() { q.Update(k, mk(p)) }) {
					return
				}
				prio[k] = p
				r.Hist("update", k, p)
			case 3:
				if !guard("Remove", func() { q.Remove(k) }) {
					return
				}
				delete(prio, k)
				r.Hist("remove", k)
			case 4:
				if len(prio) == 0 {
					continue
				}
				var got int
				if !guard("Pop", func() { got = q.Pop() }) {
					return
				}
				p, held := prio[got]
				if !held || p != minPrio() {
					fail("pop", "Pop() = k%d (held=%v, priority %d); the minimal priority held is %d", got, held, p, minPrio())
					return
				}
				delete(prio, got)
				r.Hist("pop", got)
			case 5:
				if len(prio) == 0 {
					continue
				}
				var got int
				if !guard("Peek", func() { got = q.Peek() }) {
					return
				}
				if p, held := prio[got]; !held || p != minPrio() {
					fail("peek", "Peek() = k%d (held=%v, priority %d); the minimal priority held is %d", got, held, p, minPrio())
					return
				}
			default:
				var c bool
				var p []int
				var l int
				if !guard("Contains/Priority/Len", func() { c = q.Contains(k); p = q.Priority(k); l = q.Len() }) {
					return
				}
				want, held := prio[k]
				if c != held || l != len(prio) || (held && (len(p) != 2 || p[0] != want)) || (!held && p != nil) {
					fail("mapping", "Contains(k%d)=%v Priority=%v Len=%d; the model says held=%v priority=%d len=%d", k, c, p, l, held, want, len(prio))
					return
				}
			}
		}
		// drain: everything comes out in non-decreasing priority order
		last := -1
		for len(prio) > 0 && !r.Failed() {
			var got int
			if !guard("Pop", func() { got = q.Pop() }) {
				return
			}
			p, held := prio[got]
			if !held || p < last || p != minPrio() {
				fail("drain", "draining: Pop() = k%d (held=%v, priority %d) after priority %d; minimal held %d", got, held, p, last, minPrio())
				return
			}
			last = p
			delete(prio, got)
		}
		return
	}
	// ---- Heap[[]int] ----
	var held []int
	var initial [][]int
	for i, n := 0, r.Choose(6, "odd-init"); i < n; i++ {
		p := r.Choose(8, "odd-prio")
		held = append(held, p)
		initial = append(initial, mk(p))
	}
	var h xheap.Heap[[]int]
	if !guard("New", func() {
		if r.Choose(2, "odd-cmp") == 0 {
			h = xheap.New[[]int](less, initial)
		} else {
			h = xheap.NewCmp[[]int](cmp, initial)
		}
	}) {
		return
	}
	for s := 0; s < steps && !r.Failed(); s++ {
		r.Ops++
		switch r.Choose(4, "odd-op") {
		case 0, 1:
			p := r.Choose(8, "odd-prio")
			if !guard("Push", func() { h.Push(mk(p)) }) {
				return
			}
			held = append(held, p)
			r.Hist("push", p)
		case 2:
			if len(held) == 0 {
				continue
			}
			var got []int
			if !guard("Pop", func() { got = h.Pop() }) {
				return
			}
			sort.Ints(held)
			if len(got) != 2 || got[0] != held[0] {
				fail("heap-pop", "Pop() = %v; the minimal element held is %d", got, held[0])
				return
			}
			held = held[1:]
			r.Hist("pop", got[0])
		default:
			var l int
			if !guard("Len", func() { l = h.Len() }) {
				return
			}
			if l != len(held) {
				fail("heap-len", "Len() = %d, the model holds %d", l, len(held))
				return
			}
			if l > 0 {
				var got []int
				if !guard("Peek", func() { got = h.Peek() }) {
					return
				}
				sort.Ints(held)
				if len(got) != 2 || got[0] != held[0] {
					fail("heap-peek", "Peek() = %v; the minimal element held is %d", got, held[0])
					return
				}
			}
		}
	}
}
