package worlds

import (
	"github.com/bradenaw/juniper/container/xlist"
)

// World `list` (C06): all ten xlist.List operations, always with handles of nodes that are
// currently in the list (the property's precondition), against a slice-of-handles model. After
// every step both walks (Front->Next, Back->Prev), both ends, Len, handle identity and Values are
// compared; nodes removed with Remove must have neither neighbour, then and later. One party, no
// fault dimension: this is seeded history search with model refinement.
//
// Nodes dropped by Clear are not examined afterwards: the harness reads "a removed node" as a node
// passed to Remove (Clear only forgets its nodes; their links to each other stay).

func init() {
	Register(&World{Name: "list", Props: []string{"C06"}, Concurrent: false, Run: listWorld})
	ExpectedProbes["list"] = []string{
		"regrow-after-clear", "regrow-after-removing-all", "move-node-is-mark", "move-adjacent-node-first",
		"move-adjacent-mark-first", "move-front-relative-to-back", "move-back-relative-to-front",
		"single-element-move", "single-element-remove", "insert-before-front", "insert-after-back",
		"remove-front", "remove-back", "move-before-front", "move-after-back",
	}
}

const (
	lsPushFront = iota
	lsPushBack
	lsInsertBefore
	lsInsertAfter
	lsRemove
	lsMoveBefore
	lsMoveAfter
	lsMoveToFront
	lsMoveToBack
	lsClear
	lsNumOps
)

var lsOpName = [...]string{"PushFront", "PushBack", "InsertBefore", "InsertAfter", "Remove", "MoveBefore", "MoveAfter", "MoveToFront", "MoveToBack", "Clear"}

type lsEnt struct {
	n *xlist.Node[int]
	v int
}

type lsW struct {
	r       *R
	l       xlist.List[int] // used from its zero value
	m       []lsEnt
	removed [8]lsEnt
	nRem    int
	cleared [8]lsEnt // some handles that were in the list when it was cleared: their Value must stay
	nextV   int
	maxLen  int
	emptied int // 0 never emptied, 1 just emptied by Clear, 2 just emptied by removing every node
}

func (w *lsW) posClass(i int) int {
	n := len(w.m)
	switch {
	case i < 0:
		return 0
	case i == 0:
		return 1
	case i == n-1:
		return 2
	case i == 1:
		return 3
	case i == n-2:
		return 4
	}
	return 5
}

func (w *lsW) pickPos() int {
	n := len(w.m)
	i := 0
	switch w.r.Choose(5, "pos-class") {
	case 1:
		i = n - 1
	case 2:
		i = w.r.Choose(n, "pos")
	case 3:
		i = 1
	case 4:
		i = n - 2
	}
	if i < 0 {
		i = 0
	}
	if i >= n {
		i = n - 1
	}
	return i
}

// pickPair chooses node and mark positions: independent, identical, adjacent in either order, or
// the two ends in either order.
func (w *lsW) pickPair() (node, mark int) {
	n := len(w.m)
	node = w.pickPos()
	switch w.r.Choose(6, "pair") {
	case 0:
		mark = w.pickPos()
	case 1:
		mark = node
	case 2:
		mark = node + 1
	case 3:
		mark = node - 1
	case 4:
		node, mark = 0, n-1
	case 5:
		node, mark = n-1, 0
	}
	if mark < 0 {
		mark = 0
	}
	if mark >= n {
		mark = n - 1
	}
	return
}

func (w *lsW) insertAt(i int, e lsEnt) {
	w.m = append(w.m, lsEnt{})
	copy(w.m[i+1:], w.m[i:])
	w.m[i] = e
}

func (w *lsW) removeAt(i int) lsEnt {
	e := w.m[i]
	copy(w.m[i:], w.m[i+1:])
	w.m[len(w.m)-1] = lsEnt{}
	w.m = w.m[:len(w.m)-1]
	return e
}

func (w *lsW) do(op int) {
	r := w.r
	if r.Failed() {
		return
	}
	n := len(w.m)
	if n == 0 && op != lsPushFront && op != lsPushBack && op != lsClear {
		op = lsPushBack // no handle to use
	}
	if n >= w.maxLen && op <= lsInsertAfter {
		op = lsRemove
	}
	name := lsOpName[op]
	node, mark := -1, -1
	switch op {
	case lsInsertBefore, lsInsertAfter:
		mark = w.pickPos()
	case lsRemove, lsMoveToFront, lsMoveToBack:
		node = w.pickPos()
	case lsMoveBefore, lsMoveAfter:
		node, mark = w.pickPair()
	}
	rel := 0
	if node >= 0 && mark >= 0 {
		switch {
		case node == mark:
			rel = 1
		case node+1 == mark:
			rel = 2
		case node-1 == mark:
			rel = 3
		default:
			rel = 4
		}
	}
	// probes on what the operation meets
	switch op {
	case lsPushFront, lsPushBack, lsInsertBefore, lsInsertAfter:
		if n == 0 && w.emptied == 1 {
			r.Probe("regrow-after-clear")
		}
		if n == 0 && w.emptied == 2 {
			r.Probe("regrow-after-removing-all")
		}
		if op == lsInsertBefore && mark == 0 {
			r.Probe("insert-before-front")
		}
		if op == lsInsertAfter && mark == n-1 {
			r.Probe("insert-after-back")
		}
	case lsRemove:
		if n == 1 {
			r.Probe("single-element-remove")
		}
		if node == 0 {
			r.Probe("remove-front")
		}
		if node == n-1 {
			r.Probe("remove-back")
		}
	case lsMoveBefore, lsMoveAfter, lsMoveToFront, lsMoveToBack:
		if n == 1 {
			r.Probe("single-element-move")
		}
		switch rel {
		case 1:
			r.Probe("move-node-is-mark")
		case 2:
			r.Probe("move-adjacent-node-first")
		case 3:
			r.Probe("move-adjacent-mark-first")
		}
		if n > 1 && node == 0 && mark == n-1 {
			r.Probe("move-front-relative-to-back")
		}
		if n > 1 && node == n-1 && mark == 0 {
			r.Probe("move-back-relative-to-front")
		}
		if op == lsMoveBefore && mark == 0 && node > 0 {
			r.Probe("move-before-front")
		}
		if op == lsMoveAfter && mark == n-1 && node >= 0 && node < n-1 {
			r.Probe("move-after-back")
		}
	}
	lc := n
	if lc > 4 {
		lc = 5
		if n > 8 {
			lc = 6
		}
	}
	r.State(((uint64(lc)*16+uint64(op))*8+uint64(w.posClass(node)))*8*8 + uint64(w.posClass(mark))*8 + uint64(rel))
	r.Ops++

	var nodeH, markH *xlist.Node[int]
	if node >= 0 {
		nodeH = w.m[node].n
	}
	if mark >= 0 {
		markH = w.m[mark].n
	}
	w.nextV++
	v := w.nextV
	var got *xlist.Node[int]
	panicked := func() (panicked bool) {
		defer func() {
			if p := recover(); p != nil {
				passThrough(p)
				panicked = true
			}
		}()
		l := &w.l
		switch op {
		case lsPushFront:
			got = l.PushFront(v)
		case lsPushBack:
			got = l.PushBack(v)
		case lsInsertBefore:
			got = l.InsertBefore(v, markH)
		case lsInsertAfter:
			got = l.InsertAfter(v, markH)
		case lsRemove:
			l.Remove(nodeH)
		case lsMoveBefore:
			l.MoveBefore(nodeH, markH)
		case lsMoveAfter:
			l.MoveAfter(nodeH, markH)
		case lsMoveToFront:
			l.MoveToFront(nodeH)
		case lsMoveToBack:
			l.MoveToBack(nodeH)
		case lsClear:
			l.Clear()
		}
		return
	}()
	if r.Trace {
		r.Logf("%s(node@%d, mark@%d, v=%d) on %d nodes  panicked=%v", name, node, mark, v, n, panicked)
	}
	r.Hist(op, node, mark, panicked)
	if panicked {
		r.Violate("C06", "list/unexpected-panic/"+name, "%s(node at %d, mark at %d) panicked on a list of %d nodes", name, node, mark, n)
		return
	}

	// advance the model
	switch op {
	case lsPushFront, lsPushBack, lsInsertBefore, lsInsertAfter:
		if got == nil {
			r.Violate("C06", "list/nil-handle/"+name, "%s returned a nil node", name)
			return
		}
		for _, e := range w.m {
			if e.n == got {
				r.Violate("C06", "list/new-handle-not-fresh/"+name, "%s returned the handle of a node that is already in the list", name)
				return
			}
		}
		at := 0
		switch op {
		case lsPushBack:
			at = n
		case lsInsertBefore:
			at = mark
		case lsInsertAfter:
			at = mark + 1
		}
		w.insertAt(at, lsEnt{n: got, v: v})
		w.emptied = 0
	case lsRemove:
		e := w.removeAt(node)
		w.removed[w.nRem%len(w.removed)] = e
		w.nRem++
		if len(w.m) == 0 {
			w.emptied = 2
		}
	case lsMoveBefore, lsMoveAfter, lsMoveToFront, lsMoveToBack:
		if op == lsMoveToFront {
			mark = 0
		}
		if op == lsMoveToBack {
			mark = n - 1
		}
		if node != mark {
			markN := w.m[mark].n
			e := w.removeAt(node)
			j := 0
			for w.m[j].n != markN {
				j++
			}
			if op == lsMoveAfter || op == lsMoveToBack {
				j++
			}
			w.insertAt(j, e)
		}
	case lsClear:
		for i := range w.m {
			if i < len(w.cleared) {
				w.cleared[i] = w.m[i]
			}
			w.m[i] = lsEnt{}
		}
		w.m = w.m[:0]
		w.emptied = 1
	}
	w.check(name)
}

func (w *lsW) check(after string) {
	r := w.r
	l := &w.l
	n := len(w.m)
	if got := l.Len(); got != n {
		r.Violate("C06", "list/len-mismatch/after-"+after, "after %s: Len() = %d, the ideal sequence holds %d handles", after, got, n)
		return
	}
	// forward walk
	cur := l.Front()
	for i := 0; i < n; i++ {
		if cur != w.m[i].n {
			r.Violate("C06", "list/forward-walk-mismatch/after-"+after, "after %s: walking Front->Next, node number %d is %s; the ideal sequence has %s there (%d handles)", after, i, w.describe(cur), w.describe(w.m[i].n), n)
			return
		}
		if cur.Value != w.m[i].v {
			r.Violate("C06", "list/value-changed/after-"+after, "after %s: the Value of node number %d is %d, it was created with %d", after, i, cur.Value, w.m[i].v)
			return
		}
		if i == 0 && cur.Prev() != nil {
			r.Violate("C06", "list/front-has-prev/after-"+after, "after %s: Front().Prev() is %s, not nil", after, w.describe(cur.Prev()))
			return
		}
		cur = cur.Next()
	}
	if cur != nil {
		if n == 0 {
			r.Violate("C06", "list/front-of-empty-not-nil/after-"+after, "after %s: the ideal sequence is empty but Front() is %s", after, w.describe(cur))
		} else {
			r.Violate("C06", "list/back-has-next/after-"+after, "after %s: the forward walk does not end after %d nodes: the next node is %s", after, n, w.describe(cur))
		}
		return
	}
	// backward walk, the mirror image
	cur = l.Back()
	for i := n - 1; i >= 0; i-- {
		if cur != w.m[i].n {
			r.Violate("C06", "list/backward-walk-mismatch/after-"+after, "after %s: walking Back->Prev, the node at position %d is %s; the ideal sequence has %s there (%d handles)", after, i, w.describe(cur), w.describe(w.m[i].n), n)
			return
		}
		if i == n-1 && cur.Next() != nil {
			r.Violate("C06", "list/back-has-next/after-"+after, "after %s: Back().Next() is %s, not nil", after, w.describe(cur.Next()))
			return
		}
		cur = cur.Prev()
	}
	if cur != nil {
		if n == 0 {
			r.Violate("C06", "list/back-of-empty-not-nil/after-"+after, "after %s: the ideal sequence is empty but Back() is %s", after, w.describe(cur))
		} else {
			r.Violate("C06", "list/front-has-prev/after-"+after, "after %s: the backward walk does not end after %d nodes: the next node is %s", after, n, w.describe(cur))
		}
		return
	}
	// handles dropped by Clear keep their Value ("their Value is never touched")
	for _, e := range w.cleared {
		if e.n != nil && e.n.Value != e.v {
			r.Violate("C06", "list/value-changed/cleared-handle", "after %s: the Value of a handle that was in the list when it was cleared is %d, it was created with %d", after, e.n.Value, e.v)
			return
		}
	}
	// nodes removed with Remove: neither neighbour, Value untouched
	for _, e := range w.removed {
		if e.n == nil {
			continue
		}
		if e.n.Next() != nil || e.n.Prev() != nil {
			r.Violate("C06", "list/removed-node-has-neighbour/after-"+after, "after %s: the removed node with value %d has Next=%s Prev=%s", after, e.v, w.describe(e.n.Next()), w.describe(e.n.Prev()))
			return
		}
		if e.n.Value != e.v {
			r.Violate("C06", "list/value-changed/after-"+after, "after %s: the Value of a removed node is %d, it was created with %d", after, e.n.Value, e.v)
			return
		}
	}
}

func (w *lsW) describe(n *xlist.Node[int]) string {
	if n == nil {
		return "nil"
	}
	for i, e := range w.m {
		if e.n == n {
			return "the node with value " + itoa(e.v) + " (ideal position " + itoa(i) + ")"
		}
	}
	return "a node with value " + itoa(n.Value) + " that is not in the ideal sequence"
}

const (
	lsPhMixed = iota
	lsPhGrow
	lsPhShrink
	lsPhMoves
)

func listWorld(r *R) {
	w := &lsW{r: r}
	sizes := []int{40, 300, 2000}
	if r.Tier == "thorough" {
		sizes = append(sizes, 20000)
	}
	maxOps := sizes[r.Choose(len(sizes), "history-len")]
	w.maxLen = []int{4, 1, 2, 12, 40, 200}[r.Choose(6, "max-len")]
	phaseMax := []int{6, 30, 150}[r.Choose(3, "phase-max")]
	if r.Trace {
		r.Logf("config: maxOps=%d maxLen=%d phaseMax=%d", maxOps, w.maxLen, phaseMax)
	}
	w.check("construction")
	for r.Ops < maxOps && !r.Failed() {
		phase := r.Choose(4, "phase")
		plen := 1 + r.Choose(phaseMax, "phase-len")
		for k := 0; k < plen && r.Ops < maxOps && !r.Failed(); k++ {
			op := -1
			if phase != lsPhMixed && r.Choose(10, "bias") < 7 {
				switch phase {
				case lsPhGrow:
					op = lsPushFront + r.Choose(4, "grow-op")
				case lsPhShrink:
					op = lsRemove
				case lsPhMoves:
					op = lsMoveBefore + r.Choose(4, "move-op")
				}
			}
			if op < 0 {
				// all ten; Clear is rare so that lists get to grow
				c := r.Choose(28, "op")
				if c < 27 {
					op = c % 9
				} else {
					op = lsClear
				}
			}
			w.do(op)
		}
	}
}
