package worlds

import (
	"fmt"

	"github.com/bradenaw/juniper/chans"
	"github.com/bradenaw/juniper/stream"

	"verifsim/context"
	"verifsim/sim"
	"verifsim/time"
)

// World `merge` (C12): chans.Merge over all four arity paths, chans.Replicate, stream.Merge.

func init() {
	Register(&World{Name: "merge", Episodes: true, Props: []string{"C12"}, Concurrent: true, MaxSteps: 6000, Run: mergeWorld})
	ExpectedProbes["merge"] = []string{"stream-merge-chan-inputs", "stream-merge-chan-inputs-end", "chans-arity-0", "chans-arity-1", "chans-arity-2", "chans-arity-3", "chans-arity-many", "input-closed-immediately", "replicate-0-dsts", "replicate-many-dsts", "stream-merge-error", "stream-merge-close-early", "stream-merge-zero-inputs", "stream-merge-end", "stream-merge-next-ctx-expired"}
}

func mergeWorld(r *R) {
	switch r.Choose(5, "scenario") {
	case 0, 1:
		chansMergeScenario(r)
	case 2:
		replicateScenario(r)
	default:
		if r.Choose(5, "stream-merge-chan-inputs") == 4 {
			streamMergeChanInputs(r)
			return
		}
		streamMergeScenario(r)
	}
}

// streamMergeChanInputs: stream.Merge over inputs that are the library's own channel streams
// (stream.Chan), fed by harness tasks that may stop sending without ever closing their channel. The
// same clauses as in streamMergeScenario, seen from the other side: the inputs cannot be told to
// stop, so after Close the goroutines Merge started have to finish with the channels still open.
func streamMergeChanInputs(r *R) {
	r.Probe("stream-merge-chan-inputs")
	arity := 1 + r.Choose(4, "arity")
	root := RootCtx(r)
	chs := make([]chan int, arity)
	ins := make([]stream.Stream[int], arity)
	counts := make([]int, arity)
	closes := make([]bool, arity)
	total := 0
	allClose := true
	for i := range chs {
		chs[i] = make(chan int, r.Choose(3, "chan-cap"))
		ins[i] = stream.Chan(chs[i])
		counts[i] = r.Choose(4, "count")
		closes[i] = r.Choose(3, "feeder-closes") != 2
		allClose = allClose && closes[i]
		total += counts[i]
	}
	closeAfter := -1
	if !allClose || r.Choose(3, "close-early") == 2 {
		closeAfter = r.Choose(total+1, "close-after") // some channel stays open: the consumer gives up at some point
	}
	r.Logf("config: stream.Merge over stream.Chan inputs, arity=%d counts=%v feeder closes=%v closeAfter=%d", arity, counts, closes, closeAfter)
	m := stream.Merge(ins...)
	for i := range chs {
		i := i
		pace := r.Choose(3, "feeder-pace")
		sim.GoNamed(fmt.Sprintf("feeder%d", i), func() {
			for j := 0; j < counts[i]; j++ {
				Spin(pace, "feeder-pace")
				sim.Send(chs[i], i*100+j, "feeder-send")
			}
			if closes[i] {
				sim.Close(chs[i], "feeder-close")
			}
		})
	}
	last := make([]int, arity)
	for i := range last {
		last[i] = -1
	}
	cs := &Calls{r: r}
	done, closedOut := false, false
	sim.GoNamed("consumer", func() {
		defer func() { done = true }()
		for k := 0; k != closeAfter; k++ {
			c := cs.Begin("consumer", "Next", k, root)
			v, err := m.Next(root.C)
			cs.End(c, v, err == nil, err)
			if err == stream.End {
				for i := range last {
					if !closes[i] || last[i]+1 != counts[i] {
						r.Violate("C12", "stream-merge/end-before-delivered/chan-inputs", "End reported but input %d (closed by its feeder: %v) has delivered %d of %d items", i, closes[i], last[i]+1, counts[i])
						return
					}
				}
				r.Probe("stream-merge-chan-inputs-end")
				break
			}
			if err != nil {
				r.Violate("C12", "stream-merge/wrong-error/chan-inputs", "Next reported %v; channel inputs cannot fail and the context is live", err)
				return
			}
			i, j := v/100, v%100
			if i < 0 || i >= arity || j != last[i]+1 || j >= counts[i] {
				r.Violate("C12", "stream-merge/order/chan-inputs", "received %d; input %d had delivered up to #%d of %d", v, i, last[i], counts[i])
				return
			}
			last[i] = j
		}
		c := cs.Begin("consumer", "Close", 0, nil)
		m.Close()
		cs.End(c, 0, true, nil)
		closedOut = true
	})
	sim.WaitStuck("stream-merge-chan-phase1")
	if r.Failed() {
		return
	}
	if !done {
		pend := cs.Pending()
		if len(pend) > 0 && pend[0].Kind == "Close" {
			r.Violate("C12", "stream-merge/stuck/Close", "Close of the merged stream (channel inputs) never returns: %v", sim.TaskStates())
			return
		}
		delivered := 0
		for i := range last {
			delivered += last[i] + 1
		}
		if allClose || delivered < total {
			r.Violate("C12", "stream-merge/stuck/Next/chan-inputs", "Next never returns although %d of %d sent items are undelivered (all feeders close: %v): %v", total-delivered, total, allClose, sim.TaskStates())
		}
		return // legitimately waiting on a channel that nobody closes
	}
	if closedOut {
		if lt := LibraryTasks(); len(lt) > 0 {
			r.Probe("stream-merge-chan-inputs-open-at-close")
			r.Violate("C12", "stream-merge/goroutines-left-after-close/chan-inputs", "the output was closed with some input channels still open and nothing can run any more, but goroutines started by Merge are still alive (they need further input to finish): %s", taskNames(lt))
		}
	}
}

func chansMergeScenario(r *R) {
	if r.Choose(4, "elem-type") == 3 {
		// interface-typed elements, one of which is a nil interface value
		nilCode := r.Choose(4, "nil-input")*100 + r.Choose(3, "nil-index")
		r.Probe("chans-merge-interface-elements")
		chansMergeRun[any](r, func(v int) any {
			if v == nilCode {
				return nil
			}
			return v
		}, func(x any) int {
			if x == nil {
				return nilCode
			}
			return x.(int)
		})
		return
	}
	chansMergeRun[int](r, func(v int) int { return v }, func(v int) int { return v })
}

func chansMergeRun[T any](r *R, enc func(int) T, dec func(T) int) {
	arity := []int{2, 0, 1, 3, 4, 6}[r.Choose(6, "arity")]
	if r.Choose(24, "arity-dozens") == 23 {
		arity = []int{63, 64, 65, 70, 129}[r.Choose(5, "arity-dozens-n")] // around multiples of 64
		r.Probe("chans-arity-dozens")
	}
	if r.Choose(400, "arity-huge") == 399 {
		chansMergeHuge[T](r)
		return
	}
	switch {
	case arity <= 3:
		r.Probe(fmt.Sprintf("chans-arity-%d", arity))
	default:
		r.Probe("chans-arity-many")
	}
	outBuf := r.Choose(3, "outbuf")
	out := make(chan T, outBuf)
	ins := make([]chan T, arity)
	roIns := make([]<-chan T, arity)
	counts := make([]int, arity)
	total := 0
	for i := range ins {
		ins[i] = make(chan T, r.Choose(2, "inbuf"))
		roIns[i] = ins[i]
		counts[i] = r.Choose(4, "count")
		if counts[i] == 0 {
			r.Probe("input-closed-immediately")
		}
		total += counts[i]
	}
	// one of the inputs may be a nil channel: it never yields and is never exhausted, so Merge
	// moves everything the other inputs send and then keeps waiting - on every code path
	nilInput := -1
	if arity >= 1 && arity <= 6 && r.Choose(10, "nil-channel-input") == 9 {
		nilInput = r.Choose(arity, "nil-channel-index")
		total -= counts[nilInput]
		counts[nilInput] = 0
		roIns[nilInput] = nil
		r.Probe("chans-merge-nil-channel-input")
	}
	r.Logf("config: chans.Merge arity=%d counts=%v outBuf=%d nilInput=%d", arity, counts, outBuf, nilInput)
	closed := 0
	for i := range ins {
		i := i
		if i == nilInput {
			continue
		}
		pace := r.Choose(3, "ppace")
		sim.GoNamed(fmt.Sprintf("producer%d", i), func() {
			for j := 0; j < counts[i]; j++ {
				Spin(pace, "producer-pace")
				sim.Self().Label = fmt.Sprintf("producer%d send #%d", i, j)
				sim.Send(ins[i], enc(i*100+j), "producer-send")
			}
			Spin(pace, "producer-pace")
			closed++ // counted before the close becomes visible: Merge can only return after it
			sim.Close(ins[i], "producer-close")
			sim.Self().Label = ""
		})
	}
	mergeReturned := false
	var mergeRetSeq uint64
	sim.GoNamed("merger", func() {
		sim.Self().Label = "chans.Merge"
		defer func() {
			if p := recover(); p != nil {
				passThrough(p)
				if p == sim.Killed {
					panic(p)
				}
				r.Violate("C12", fmt.Sprintf("chans-merge/panic/arity-%s", arityClass(arity)), "chans.Merge panicked: %v", p)
			}
		}()
		orig := append([]<-chan T(nil), roIns...)
		chans.Merge(out, roIns...)
		for i := range orig {
			if roIns[i] != orig[i] {
				r.Violate("C12", "argument-slice-modified/chans.Merge", "chans.Merge changed element %d of the slice it was called with", i)
			}
		}
		mergeReturned = true
		mergeRetSeq = sim.Seq()
		sim.Self().Label = ""
		r.Logf("chans.Merge returned #%d", mergeRetSeq)
		if closed != arity {
			r.Violate("C12", "chans-merge/returned-before-inputs-closed", "chans.Merge returned although only %d of %d inputs are closed", closed, arity)
		}
	})
	got := 0
	last := make([]int, arity)
	for i := range last {
		last[i] = -1
	}
	seen := map[int]bool{}
	cpace := r.Choose(3, "cpace")
	sim.GoNamed("consumer", func() {
		for got < total {
			Spin(cpace, "consumer-pace")
			sim.Self().Label = fmt.Sprintf("consumer recv #%d", got)
			v := dec(sim.Recv(out, "consumer-recv"))
			r.Hist("recv", v)
			r.Logf("consumer received %d", v)
			i, j := v/100, v%100
			if i < 0 || i >= arity || j >= counts[i] {
				r.Violate("C12", "chans-merge/unsent-value", "received %d which no producer sent", v)
				return
			}
			if seen[v] {
				r.Violate("C12", "chans-merge/duplicate", "received %d twice", v)
				return
			}
			seen[v] = true
			if j <= last[i] {
				r.Violate("C12", "chans-merge/order", "input %d: value #%d arrived after #%d", i, j, last[i])
				return
			}
			last[i] = j
			got++
		}
		sim.Self().Label = ""
	})
	sim.WaitStuck("merge-phase1")
	if r.Failed() {
		return
	}
	if got+len(out) < total {
		r.Violate("C12", "chans-merge/lost", "only %d of %d values arrived and nothing can run any more: %v", got, total, sim.TaskStates())
		return
	}
	if !mergeReturned && nilInput < 0 {
		r.Violate("C12", fmt.Sprintf("chans-merge/never-returns/arity-%s", arityClass(arity)), "all %d inputs are closed and all %d values were delivered, but chans.Merge has not returned: %v", arity, total, sim.TaskStates())
		return
	}
	if len(out) > 0 {
		r.Violate("C12", "chans-merge/extra-values", "%d extra values were sent to out", len(out))
	}
}

// chansMergeHuge: "any number of inputs" taken literally - more inputs than one reflect.Select call
// accepts. Every input is already closed, so Merge has nothing to move and must simply return.
func chansMergeHuge[T any](r *R) {
	const arity = 65537
	r.Probe("chans-arity-over-65536")
	ins := make([]<-chan T, arity)
	for i := range ins {
		c := make(chan T)
		close(c)
		ins[i] = c
	}
	out := make(chan T, 1)
	returned := false
	sim.GoNamed("merger", func() {
		sim.Self().Label = "chans.Merge"
		defer func() {
			if p := recover(); p != nil {
				passThrough(p)
				if p == sim.Killed {
					panic(p)
				}
				r.Violate("C12", "chans-merge/panic/arity-over-65536", "chans.Merge with %d (closed) inputs panicked: %v", arity, p)
			}
		}()
		chans.Merge(out, ins...)
		returned = true
	})
	sim.WaitStuck("merge-huge")
	if !r.Failed() && !returned {
		r.Violate("C12", "chans-merge/never-returns/arity-over-65536", "chans.Merge with %d closed inputs has not returned: %v", arity, sim.TaskStates())
	}
}

func arityClass(a int) string {
	if a <= 3 {
		return fmt.Sprint(a)
	}
	return "many"
}

func replicateScenario(r *R) {
	if r.Choose(4, "elem-type") == 3 {
		// interface-typed elements, one of which is a nil interface value
		nilAt := r.Choose(4, "nil-index")
		r.Probe("replicate-interface-elements")
		replicateRun[any](r, func(v int) any {
			if v == nilAt {
				return nil
			}
			return v
		}, func(x any) int {
			if x == nil {
				return nilAt
			}
			return x.(int)
		})
		return
	}
	replicateRun[int](r, func(v int) int { return v }, func(v int) int { return v })
}

func replicateRun[T any](r *R, enc func(int) T, dec func(T) int) {
	nd := r.Choose(4, "dsts")
	if r.Choose(12, "very-many-dsts") == 11 {
		nd = 62 + r.Choose(8, "dsts-over-60")
		r.Probe("replicate-over-60-dsts")
	}
	if nd == 0 {
		r.Probe("replicate-0-dsts")
	} else if nd >= 2 {
		r.Probe("replicate-many-dsts")
	}
	n := r.Choose(5, "count")
	src := make(chan T, r.Choose(2, "srcbuf"))
	dsts := make([]chan T, nd)
	wo := make([]chan<- T, nd)
	for i := range dsts {
		dsts[i] = make(chan T, r.Choose(2, "dstbuf"))
		wo[i] = dsts[i]
	}
	r.Logf("config: chans.Replicate dsts=%d count=%d", nd, n)
	srcClosed := false
	sim.GoNamed("producer", func() {
		for j := 0; j < n; j++ {
			Spin(r.Choose(2, "ppace"), "producer-pace")
			sim.Send(src, enc(j), "producer-send")
		}
		srcClosed = true
		sim.Close(src, "producer-close")
	})
	returned := false
	sim.GoNamed("replicator", func() {
		sim.Self().Label = "chans.Replicate"
		defer func() {
			if p := recover(); p != nil {
				passThrough(p)
				if p == sim.Killed {
					panic(p)
				}
				r.Violate("C12", "replicate/panic", "chans.Replicate panicked (%d destinations): %v", nd, p)
			}
		}()
		orig := append([]chan<- T(nil), wo...)
		chans.Replicate(src, wo...)
		for i := range orig {
			if wo[i] != orig[i] {
				r.Violate("C12", "argument-slice-modified/chans.Replicate", "chans.Replicate changed element %d of the slice it was called with", i)
			}
		}
		returned = true
		sim.Self().Label = ""
		if !srcClosed {
			r.Violate("C12", "replicate/returned-before-src-closed", "Replicate returned before src was closed")
		}
	})
	got := make([]int, nd)
	for i := range dsts {
		i := i
		pace := r.Choose(3, "cpace")
		sim.GoNamed(fmt.Sprintf("consumer%d", i), func() {
			for got[i] < n {
				Spin(pace, "consumer-pace")
				v := dec(sim.Recv(dsts[i], "consumer-recv"))
				r.Hist("recv", i, v)
				if v != got[i] {
					r.Violate("C12", "replicate/wrong-sequence", "destination %d received %d, expected %d", i, v, got[i])
					return
				}
				got[i]++
			}
		})
	}
	sim.WaitStuck("replicate-phase1")
	if r.Failed() {
		return
	}
	for i := range got {
		if got[i]+len(dsts[i]) < n {
			r.Violate("C12", "replicate/lost", "destination %d received only %d of %d values: %v", i, got[i], n, sim.TaskStates())
			return
		}
		if len(dsts[i]) > 0 {
			r.Violate("C12", "replicate/extra-values", "destination %d has %d extra values", i, len(dsts[i]))
			return
		}
	}
	if !returned {
		r.Violate("C12", "replicate/never-returns", "src is closed and everything was delivered, but Replicate has not returned: %v", sim.TaskStates())
	}
}

func streamMergeScenario(r *R) {
	arity := []int{2, 0, 1, 3, 4}[r.Choose(5, "arity")]
	root := RootCtx(r)
	srcs := make([]*Src, arity)
	ins := make([]stream.Stream[int], arity)
	total := 0
	anyErr := false
	blocks := false
	for i := range srcs {
		n := r.Choose(4, "count")
		items := make([]int, n)
		for j := range items {
			items[j] = i*100 + j
		}
		s := NewSrc(r, fmt.Sprintf("in%d", i), items)
		s.Delay = map[int]time.Duration{}
		for p := 0; p <= n; p++ {
			if r.Choose(4, "delay") == 3 {
				s.Delay[p] = time.Duration(1+r.Choose(6, "delay-d")) * 7 * time.Millisecond
			}
		}
		switch r.Choose(6, "fault") {
		case 4:
			// mostly a private error value; sometimes one that the library itself also produces
			switch r.Choose(6, "err-value") {
			case 4:
				s.Err = context.Canceled
			case 5:
				s.Err = context.DeadlineExceeded
			case 3:
				// an input's own failure that merely *wraps* stream.End is still a failure
				s.Err = fmt.Errorf("input %d broke off: %w", i, stream.End)
				r.Probe("stream-merge-input-error-wraps-End")
			default:
				s.Err = NewErr(fmt.Sprintf("E%d", i))
			}
			s.ErrAt = r.Choose(n+1, "err-at")
			anyErr = true
		case 5:
			s.BlockAt = r.Choose(n+1, "block-at")
			blocks = true
		}
		if r.Choose(5, "slow-close") == 4 {
			s.CloseDelay = time.Duration(1+r.Choose(5, "slow-close-d")) * 11 * time.Millisecond
			r.Probe("stream-merge-slow-input-close")
		}
		if s.BlockAt < 0 && r.Choose(4, "ignore-ctx") == 3 {
			s.IgnoreCtx = true // an input that does not react to cancellation (but does end by itself)
		}
		srcs[i] = s
		ins[i] = s
		total += n
	}
	closeAfter := -1
	if r.Choose(3, "close-early") == 2 {
		closeAfter = r.Choose(total+1, "close-after")
	}
	r.Logf("config: stream.Merge arity=%d total=%d anyErr=%v blocks=%v closeAfter=%d", arity, total, anyErr, blocks, closeAfter)
	if arity == 0 {
		r.Probe("stream-merge-zero-inputs")
	}
	// some of the inputs may be the library's own constant streams: they yield nothing, so the
	// item-level oracles below are unaffected
	if nEmpty := []int{0, 0, 0, 1, 2}[r.Choose(5, "empty-inputs")]; nEmpty > 0 {
		r.Probe("stream-merge-library-empty-inputs")
		for k := 0; k < nEmpty; k++ {
			at := r.Choose(len(ins)+1, "empty-at")
			ins = append(ins[:at:at], append([]stream.Stream[int]{stream.Empty[int]()}, ins[at:]...)...)
		}
	}
	origIns := append([]stream.Stream[int](nil), ins...)
	defer func() {
		for i := range origIns {
			if ins[i] != origIns[i] {
				r.Violate("C12", "argument-slice-modified/stream.Merge", "stream.Merge changed element %d of the slice it was called with", i)
			}
		}
	}()
	m := stream.Merge(ins...)
	cs := &Calls{r: r}
	seen := map[int]bool{}
	last := make([]int, arity)
	for i := range last {
		last[i] = -1
	}
	var terminal error
	closedOut := false
	done := false
	sim.GoNamed("consumer", func() {
		defer func() { done = true }()
		for k := 0; ; k++ {
			if k == closeAfter {
				r.Probe("stream-merge-close-early")
				r.Fault("consumer_abandon")
				break
			}
			Spin(r.Choose(2, "cpace"), "consumer-pace")
			ctx := root
			switch r.Choose(8, "nextctx") {
			case 6:
				ctx = NewDeadlineCtx(root, fmt.Sprintf("next%d", k), time.Duration(1+r.Choose(6, "ctx-d"))*5*time.Millisecond)
				r.Fault("ctx_deadline")
			case 7:
				ctx = PreCancelled(root, fmt.Sprintf("next%d", k))
				r.Fault("ctx_precancelled")
			}
			c := cs.Begin("consumer", "Next", k, ctx)
			v, err := m.Next(ctx.C)
			cs.End(c, v, err == nil, err)
			if err != nil && ctx != root && isCtxErr(err) && ctx.Dead() && err == ctx.C.Err() {
				// this call's own context ended: nothing is lost, the consumer either goes on or gives up
				r.Probe("stream-merge-next-ctx-expired")
				if k > 3*total+12 || r.Choose(3, "after-ctx-error") == 2 {
					break
				}
				continue
			}
			if err == nil {
				i, j := v/100, v%100
				if i < 0 || i >= arity || j >= len(srcs[i].Items) {
					r.Violate("C12", "stream-merge/unsent-value", "received %d which no input yielded", v)
					return
				}
				if seen[v] {
					r.Violate("C12", "stream-merge/duplicate", "received %d twice", v)
					return
				}
				seen[v] = true
				if j != last[i]+1 {
					r.Violate("C12", "stream-merge/order", "input %d: item #%d arrived after #%d", i, j, last[i])
					return
				}
				last[i] = j
				continue
			}
			terminal = err
			if err == stream.End {
				r.Probe("stream-merge-end")
				// End is due once the last input has ended and the inputs have been closed (an
				// implementation may close its inputs before it announces the end, or after:
				// "finishes exactly when all inputs are exhausted" is read as a condition, not as
				// an instant - a correct refactoring that joins its input goroutines first must not
				// be reported). What End may not wait for is anything else.
				due := c.InvAt
				for _, s := range srcs {
					if s.EndAt > due {
						due = s.EndAt
					}
					for _, at := range s.CloseRetAt {
						if at > due && at <= c.RetAt {
							due = at
						}
					}
				}
				if c.RetAt > due {
					r.Violate("C12", "stream-merge/end-reported-late", "every input had ended by t=%v and Next was invoked at t=%v, but End was only reported at t=%v", time.Duration(due), time.Duration(c.InvAt), time.Duration(c.RetAt))
					return
				}
				for i, s := range srcs {
					if s.EndSeq == 0 || s.ErrAt >= 0 && s.Pos >= s.ErrAt {
						r.Violate("C12", "stream-merge/end-before-inputs-exhausted", "End reported but input %d has not ended normally (pos=%d)", i, s.Pos)
						return
					}
					if last[i]+1 != len(s.Items) {
						r.Violate("C12", "stream-merge/end-before-delivered", "End reported but only %d of input %d's %d items were delivered", last[i]+1, i, len(s.Items))
						return
					}
				}
			} else {
				ok := false
				for _, s := range srcs {
					if s.Err != nil && err == s.Err && s.EndSeq != 0 && s.EndSeq < c.Ret {
						ok = true
					}
				}
				if !ok {
					r.Violate("C12", "stream-merge/wrong-error", "Next reported %v, which no input had returned", err)
					return
				}
				r.Probe("stream-merge-error")
				// the first error is reported as soon as it exists, not when the other inputs get round to ending
				firstAt := int64(-1)
				for _, s := range srcs {
					if s.Err != nil && s.EndSeq != 0 && (firstAt < 0 || s.EndAt < firstAt) {
						firstAt = s.EndAt
					}
				}
				due := c.InvAt
				if firstAt > due {
					due = firstAt
				}
				if c.RetAt > due {
					r.Violate("C12", "stream-merge/error-reported-late", "an input failed at t=%v and Next was invoked at t=%v, but the error was only reported at t=%v (it waited for other inputs)", time.Duration(firstAt), time.Duration(c.InvAt), time.Duration(c.RetAt))
					return
				}
			}
			break
		}
		c := cs.Begin("consumer", "Close", 0, nil)
		m.Close()
		cs.End(c, 0, true, nil)
		closedOut = true
	})
	sim.WaitStuck("stream-merge-phase1")
	if r.Failed() {
		return
	}
	if !done {
		// the consumer is blocked in Next: legitimate only if some input is blocked for ever and none failed
		pend := cs.Pending()
		inputStuck := false
		for _, s := range srcs {
			if s.NextActive > 0 {
				inputStuck = true
			}
		}
		if len(pend) > 0 && pend[0].Kind == "Next" && inputStuck {
			// release the blocked inputs by closing from the harness side is not possible without the
			// library's cooperation; end the run here (the consumer legitimately waits for a blocked input)
			return
		}
		if len(pend) > 0 && pend[0].Kind == "Close" {
			r.Violate("C12", "stream-merge/stuck/Close", "Close of the merged stream never returns: %v", sim.TaskStates())
			return
		}
		sig := "stream-merge/stuck/Next"
		if arity == 0 {
			sig = "stream-merge/stuck/Next/zero-inputs"
		}
		r.Violate("C12", sig, "Next never returns although every input has ended (%d inputs): %v", arity, sim.TaskStates())
		return
	}
	_ = terminal
	if closedOut {
		// "finish without needing further input": once Close has been invoked an input goroutine may
		// at most have one more Next under way (it can have been about to call it), never a series
		var closeInv uint64
		for _, c := range cs.All {
			if c.Kind == "Close" {
				closeInv = c.Inv
			}
		}
		for i, s := range srcs {
			later := 0
			for _, q := range s.NextInv {
				if q > closeInv {
					later++
				}
			}
			if later > 1 {
				r.Violate("C12", "stream-merge/input-used-after-close", "input %d was asked for %d further items after the merged stream's Close had been invoked", i, later)
				return
			}
		}
		if lt := LibraryTasks(); len(lt) > 0 {
			r.Violate("C12", "stream-merge/goroutines-left-after-close", "the output was closed, nothing can run any more, but goroutines started by Merge are still alive (they need further input to finish): %s", taskNames(lt))
		}
	}
}
