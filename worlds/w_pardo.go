package worlds

import (
	"fmt"
	"math"

	"github.com/bradenaw/juniper/parallel"

	"verifsim/context"
	"verifsim/sim"
	"verifsim/time"
)

// World `pardo` (C13): parallel.Do / DoContext / Map / MapContext with scripted callbacks.

func init() {
	Register(&World{Name: "pardo", Episodes: true, Props: []string{"C13"}, Concurrent: true, Timed: true, MaxSteps: 6000, Run: pardoWorld})
	ExpectedProbes["pardo"] = []string{"sequential-fast-path", "parallel-path", "failure-in-last-index", "two-failures", "caller-cancel-midflight", "waiter-released-by-failure", "parallelism-from-gomaxprocs", "n-zero", "caller-context-without-done-channel", "caller-context-with-cause", "n-huge-every-call-fails"}
}

type pardoCall struct {
	idx               int
	startSeq, endSeq  uint64
	startAt, endAt    int64
	ctxDeadAtEntry    bool
	callerLiveAtEntry bool
	err               error
	sawDone           bool
}

// pardoHugeN: DoContext over an index range nobody could ever work through - n at or near the top
// of the int range - where every call fails. The unchanged library hands out index 0 and up,
// reports the failure and stops; arithmetic on n that wraps around shows as no call at all, a nil
// return, or indexes outside [0, n).
func pardoHugeN(r *R) {
	r.Probe("n-huge-every-call-fails")
	n := []int{math.MaxInt, math.MaxInt - 1, 1 << 40, math.MaxInt32 + 1}[r.Choose(4, "huge-n")]
	parallelism := []int{2, 3, -1, 1, 20}[r.Choose(5, "parallelism")]
	eff := parallelism
	if eff <= 0 {
		eff = r.Cfg.GOMAXPROCS
	}
	root := RootCtx(r)
	e := NewErr("fE")
	calls, running, maxRunning := 0, 0, 0
	seen := map[int]bool{}
	returned := false
	var got error
	sim.GoNamed("caller", func() {
		got = parallel.DoContext(root.C, parallelism, n, func(ctx context.Context, i int) error {
			calls++
			running++
			if running > maxRunning {
				maxRunning = running
			}
			if i < 0 || i >= n || seen[i] {
				r.Violate("C13", "huge-n/bad-index", "f was called with index %d (n=%d, seen before: %v)", i, n, seen[i])
			}
			seen[i] = true
			if returned {
				r.Violate("C13", "huge-n/call-after-return", "f(%d) started after DoContext had returned", i)
			}
			sim.Yield("f")
			r.Fault("cb_error")
			running--
			if calls > 4*eff+8 {
				panic(sim.Killed) // a loop that does not stop on failure: ended here, judged below
			}
			return e
		})
		returned = true
	})
	sim.WaitStuck("pardo-huge-n")
	if r.Failed() {
		return
	}
	switch {
	case !returned:
		r.Violate("C13", "huge-n/never-returns", "DoContext(n=%d, parallelism=%d) has not returned although every call fails (%d calls so far)", n, parallelism, calls)
	case calls == 0:
		r.Violate("C13", "huge-n/no-call", "DoContext(n=%d, parallelism=%d) returned %v without calling f at all", n, parallelism, got)
	case got != e:
		r.Violate("C13", "huge-n/wrong-error", "every call of f returned %v, DoContext(n=%d, parallelism=%d) returned %v", e, n, parallelism, got)
	case maxRunning > eff:
		r.Violate("C13", "huge-n/too-many-at-once", "%d calls ran at once, the parallelism is %d", maxRunning, eff)
	case calls > 2*eff:
		r.Violate("C13", "huge-n/calls-after-failure", "%d calls were made although the first one failed (parallelism %d)", calls, eff)
	}
}

func pardoWorld(r *R) {
	if r.Choose(16, "huge-n-scenario") == 15 {
		pardoHugeN(r)
		return
	}
	variant := r.Choose(4, "variant") // 0 DoContext, 1 Do, 2 MapContext, 3 Map
	withCtx := variant == 0 || variant == 2
	n := []int{2, 0, 1, 5, 12, 3}[r.Choose(6, "n")]
	parallelism := []int{2, -1, 0, 1, 3, 20}[r.Choose(6, "parallelism")]
	eff := parallelism
	if eff <= 0 {
		eff = r.Cfg.GOMAXPROCS
		r.Probe("parallelism-from-gomaxprocs")
	}
	seq := eff == 1 || n == 1
	if n == 0 {
		r.Probe("n-zero")
	} else if seq {
		r.Probe("sequential-fast-path")
	} else {
		r.Probe("parallel-path")
	}
	const long = 10 * time.Second
	type plan struct {
		spin    int
		latency time.Duration
		fail    error
		respect bool
	}
	plans := make([]plan, n)
	nfail := 0
	for i := range plans {
		p := plan{spin: r.Choose(3, "fspin")}
		switch r.Choose(5, "latency") {
		case 3:
			p.latency = time.Duration(1+r.Choose(9, "lat-d")) * 9 * time.Millisecond
		case 4:
			if withCtx {
				p.latency = long
				p.respect = true
			}
		}
		if withCtx && r.Choose(6, "fail") == 5 {
			p.fail = NewErr(fmt.Sprintf("E%d", i))
			switch r.Choose(6, "fail-flavour") { // an error of f's own that merely looks like a context error
			case 4:
				p.fail = context.DeadlineExceeded
			case 5:
				p.fail = fmt.Errorf("f(%d) gave up: %w", i, context.Canceled)
			}
			nfail++
			if i == n-1 {
				r.Probe("failure-in-last-index")
			}
		}
		if withCtx && !p.respect && r.Choose(2, "respect") == 1 {
			p.respect = true
		}
		plans[i] = p
	}
	if nfail >= 2 {
		r.Probe("two-failures")
	}
	callerKind := 0
	if withCtx {
		callerKind = []int{0, 0, 0, 1, 2, 3, 4, 5, 6}[r.Choose(9, "callerctx")]
	}
	root := NewCtx(nil, "root")
	// Earlier calls in the same process: the call under test is not the first use of the package.
	// They ran while the program had more processors, and one of them ended in an error.
	if r.Choose(3, "earlier-calls") == 2 {
		r.Probe("earlier-calls-in-same-process")
		g := sim.GOMAXPROCS(r.Cfg.GOMAXPROCS*2 + 1)
		cnt := make([]int, 5)
		parallel.Do(-1, len(cnt), func(i int) { sim.Yield("earlier-f"); cnt[i]++ })
		for i, c := range cnt {
			if c != 1 {
				r.Violate("C13", "earlier-call/not-exactly-once", "an earlier parallel.Do(-1, 5, f) called f %d times for index %d", c, i)
				return
			}
		}
		if r.Choose(2, "earlier-error") == 1 {
			e := NewErr("earlier")
			got := parallel.DoContext(root.C, 3, 7, func(ctx context.Context, i int) error {
				sim.Yield("earlier-f")
				if i == 2 {
					return e
				}
				return nil
			})
			if got != e {
				r.Violate("C13", "earlier-call/wrong-error", "an earlier DoContext whose f(2) failed returned %v", got)
				return
			}
		}
		sim.GOMAXPROCS(g) // the program lowers GOMAXPROCS: later calls go by the new value
	}
	var caller *Ctx
	switch callerKind {
	case 0:
		caller = root
	case 1:
		caller = NewCtx(root, "caller")
		if r.Choose(3, "caller-cause") == 2 {
			// cancelled with a cause: Err() is still context.Canceled, and that is "the caller's
			// context error"
			caller = NewCauseCtx(root, "caller", NewErr("cause"))
			r.Probe("caller-context-with-cause")
		}
	case 2:
		caller = PreCancelled(root, "caller")
		if r.Choose(3, "caller-cause") == 2 {
			caller = PreCancelledCause(root, "caller", NewErr("cause"))
			r.Probe("caller-context-with-cause")
		}
		r.Fault("ctx_precancelled")
	case 3, 4:
		// a caller with nothing to cancel: context.Background(), or a value on top of it
		caller = BackgroundCtx("caller", callerKind == 4)
		r.Probe("caller-context-without-done-channel")
	case 5:
		// a caller whose context ends by its deadline while the call is under way: "the caller's
		// context error" is then context.DeadlineExceeded, not context.Canceled
		caller = NewDeadlineCtx(root, "caller", []time.Duration{5 * time.Millisecond, 30 * time.Millisecond, 100 * time.Millisecond, 3 * time.Second}[r.Choose(4, "caller-deadline")])
		r.Probe("caller-context-with-deadline")
	case 6:
		caller = PastDeadline(root, "caller")
		r.Probe("caller-context-with-deadline")
		r.Fault("ctx_precancelled")
	}
	if callerKind != 0 && r.Choose(6, "caller-uncomparable") == 5 {
		caller.Uncomparable()
	}
	cancelSpin := r.Choose(12, "cancelspin")
	r.Logf("config: variant=%d n=%d parallelism=%d eff=%d seq=%v callerKind=%d plans=%+v", variant, n, parallelism, eff, seq, callerKind, plans)

	calls := map[int][]*pardoCall{}
	var order []*pardoCall
	gauge, maxGauge := 0, 0
	returned := false
	var retSeq uint64
	var failReturned []*pardoCall // calls that have returned an error, in order
	began := 0                    // calls that began with an already-cancelled ctx while the caller's ctx was live

	body := func(ctx context.Context, i int) error {
		c := &pardoCall{idx: i, startSeq: sim.Seq(), startAt: int64(sim.Now())}
		if ctx != nil {
			c.ctxDeadAtEntry = ctx.Err() != nil
			c.callerLiveAtEntry = !caller.Dead()
			if c.ctxDeadAtEntry && c.callerLiveAtEntry {
				began++
				r.Probe("call-began-with-cancelled-ctx")
			}
		}
		calls[i] = append(calls[i], c)
		order = append(order, c)
		r.Logf("f(%d) starts #%d gauge=%d ctxDead=%v", i, c.startSeq, gauge+1, c.ctxDeadAtEntry)
		if returned {
			r.Violate("C13", "call-after-return", "f(%d) started (#%d) after the call had returned (#%d)", i, c.startSeq, retSeq)
		}
		gauge++
		if gauge > maxGauge {
			maxGauge = gauge
		}
		if gauge > eff {
			r.Violate("C13", "too-many-concurrent", "%d calls of f are running at once, parallelism is %d", gauge, eff)
		}
		p := plans[i]
		Spin(p.spin, "f-body")
		if p.latency > 0 {
			if p.respect && ctx != nil {
				if !WaitDone(ctx, p.latency, "f-latency") {
					c.sawDone = true
				}
			} else {
				sim.Sleep(p.latency, "f-latency")
			}
		} else if p.respect && ctx != nil {
			sim.Yield("f-check-ctx")
			if ctx.Err() != nil {
				c.sawDone = true
			}
		}
		gauge--
		c.endSeq = sim.Seq()
		c.endAt = int64(sim.Now())
		if p.fail != nil {
			c.err = p.fail
			r.Fault("cb_error")
		} else if c.sawDone {
			c.err = ctx.Err()
		}
		if c.err != nil {
			failReturned = append(failReturned, c)
		}
		r.Logf("f(%d) ends #%d err=%v sawDone=%v", i, c.endSeq, c.err, c.sawDone)
		r.Hist("f", i, c.err)
		return c.err
	}

	if callerKind == 1 {
		sim.GoNamed("canceller", func() {
			Spin(cancelSpin, "canceller-pace")
			if !returned {
				r.Probe("caller-cancel-midflight")
				r.Fault("ctx_cancel_midcall")
			}
			caller.Cancel()
		})
	}

	var retErr error
	var out []int
	in := make([]int, n)
	for i := range in {
		in[i] = i * 10
	}
	done := false
	sim.GoNamed("caller", func() {
		sim.Self().Label = "parallel call"
		switch variant {
		case 0:
			retErr = parallel.DoContext(caller.C, parallelism, n, body)
		case 1:
			parallel.Do(parallelism, n, func(i int) { body(nil, i) })
		case 2:
			out, retErr = parallel.MapContext(caller.C, parallelism, in, func(ctx context.Context, x int) (int, error) {
				err := body(ctx, x/10)
				return x + 1, err
			})
		case 3:
			out = parallel.Map(parallelism, in, func(x int) int {
				body(nil, x/10)
				return x + 1
			})
		}
		returned = true
		retSeq = sim.Seq()
		sim.Self().Label = ""
		r.Logf("call returned #%d err=%v out=%v", retSeq, retErr, out)
		r.Hist("ret", retErr)
		if gauge != 0 {
			r.Violate("C13", "returned-before-calls-finished", "the call returned while %d calls of f are still running", gauge)
		}
		done = true
	})

	sim.WaitStuck("pardo-phase1")
	if r.Failed() {
		return
	}
	if !done {
		r.Violate("C13", "stuck", "the call never returns: %v", sim.TaskStates())
		return
	}
	// at most once, always
	for i, cs := range calls {
		if len(cs) > 1 {
			r.Violate("C13", "called-twice", "f was called %d times for index %d", len(cs), i)
			return
		}
	}
	callerDead := caller.Dead()
	if withCtx && retErr == nil {
		// a nil return claims success: then every index must have been called (whatever happened
		// to the caller's context meanwhile)
		for i := 0; i < n; i++ {
			if len(calls[i]) != 1 {
				r.Violate("C13", "nil-return-with-calls-missing", "the call returned nil although f was never called for index %d (caller context dead: %v)", i, callerDead)
				return
			}
		}
	}
	if nfailReturned := len(failReturned); nfailReturned == 0 && !(withCtx && callerDead) {
		// no call failed and the caller's context is live: exactly once each, results in place, nil error
		for i := 0; i < n; i++ {
			if len(calls[i]) != 1 {
				r.Violate("C13", "not-called", "f was not called for index %d although no call failed", i)
				return
			}
		}
		if retErr != nil {
			r.Violate("C13", "spurious-error", "the call returned %v although no call of f failed and the caller's context is live", retErr)
			return
		}
		if variant >= 2 {
			if len(out) != n {
				r.Violate("C13", "result-length", "Map returned %d results for %d inputs", len(out), n)
				return
			}
			for i := range out {
				if out[i] != in[i]+1 {
					r.Violate("C13", "result-position", "result %d is %d, expected %d", i, out[i], in[i]+1)
					return
				}
			}
		}
	}
	if withCtx {
		if len(failReturned) > 0 {
			ok := false
			for _, c := range failReturned {
				if retErr == c.err && c.endSeq < retSeq {
					ok = true
				}
			}
			if !ok && retErr != nil && callerDead && retErr == caller.C.Err() {
				ok = true
			}
			if !ok {
				r.Violate("C13", "wrong-error", "the call returned %v; calls of f returned %v", retErr, errsOf(failReturned))
				return
			}
			// calls in flight at the first failure that wait for their context must have been released
			if !seq {
				first := failReturned[0]
				for _, c := range order {
					p := plans[c.idx]
					if c == first || p.latency != long || !p.respect {
						continue
					}
					// (only in runs without injected stalls: the failing worker still has to get from
					// f's return to errgroup's cancel, and a series of stalls can hold it up for longer
					// than the second of margin - a thorough sweep showed 1.1 s once in 10^7 runs)
					if c.startSeq < first.endSeq && c.endSeq > first.endSeq && r.Cfg.StallPer1k == 0 {
						if first.endAt < c.startAt+int64(long)-int64(time.Second) && c.endAt >= c.startAt+int64(long) {
							r.Violate("C13", "others-not-cancelled", "f(%d) failed at t=%v while f(%d) was waiting on its context, but that context was never cancelled (f(%d) ran its full %v)", first.idx, time.Duration(first.endAt), c.idx, c.idx, long)
							return
						}
						if c.sawDone {
							r.Probe("waiter-released-by-failure")
						}
					}
				}
			}
		} else if retErr != nil {
			if !(callerDead && retErr == caller.C.Err()) {
				r.Violate("C13", "wrong-error", "the call returned %v although no call of f failed (caller ctx err: %v)", retErr, caller.C.Err())
				return
			}
		}
		if began > eff-1 && !seq {
			r.Violate("C13", "too-many-began-cancelled", "%d calls began with an already-cancelled context while the caller's context was live; parallelism is %d", began, eff)
			return
		}
		if seq && began > 0 {
			r.Violate("C13", "too-many-began-cancelled", "%d calls began with an already-cancelled context on the sequential path while the caller's context was live", began)
			return
		}
	}
	if lt := LibraryTasks(); len(lt) > 0 {
		r.Violate("C13", "goroutines-left", "the call returned but worker goroutines never finish: %s", taskNames(lt))
	}
}

func errsOf(cs []*pardoCall) []error {
	var out []error
	for _, c := range cs {
		out = append(out, c.err)
	}
	return out
}
