package worlds

import (
	"fmt"

	"github.com/bradenaw/juniper/iterator"
	"github.com/bradenaw/juniper/parallel"
	"github.com/bradenaw/juniper/stream"

	"verifsim/context"
	"verifsim/sim"
	"verifsim/time"
)

// World `parmap` (C14): parallel.MapIterator / MapStream with reordering latencies, back-pressure,
// faults and Close at any moment.

func init() {
	Register(&World{Name: "parmap", Episodes: true, Props: []string{"C14"}, Concurrent: true, Timed: true, MaxSteps: 12000, Run: parmapWorld})
	ExpectedProbes["parmap"] = []string{"iterator-variant", "stream-variant", "out-of-order-completion", "in-flight-at-bound", "close-midway", "f-error", "source-error", "next-ctx-expired-then-retried", "buffer-smaller-than-parallelism"}
}

type countingIter struct {
	r     *R
	items []int
	pos   int
	onPull func()
}

func (it *countingIter) Next() (int, bool) {
	sim.Yield("iter.Next")
	if it.pos >= len(it.items) {
		return 0, false
	}
	v := it.items[it.pos]
	it.pos++
	it.onPull()
	return v, true
}

func parmapWorld(r *R) {
	sim.GOMAXPROCS(r.Cfg.GOMAXPROCS) // (an earlier episode of this world may have left another value)
	isStream := r.Choose(3, "variant") != 0
	n := r.Choose(16, "n")
	if r.Choose(4, "long") == 3 {
		n = 16 + r.Choose(10, "n-long") // long enough for a deep reorder heap
	}
	parallelism := []int{2, -1, 0, 1, 4, 7, 9, 12}[r.Choose(8, "parallelism")]
	bufferSize := []int{2, -1, 0, 1, 4, 7, 9, 12}[r.Choose(8, "buffersize")]
	// Earlier use of the package in the same process, while the program had another GOMAXPROCS: the
	// call under test goes by the value in force when it is made.
	if r.Choose(4, "earlier-call-other-gomaxprocs") == 3 {
		r.Probe("earlier-call-under-other-gomaxprocs")
		g := sim.GOMAXPROCS(r.Cfg.GOMAXPROCS*2 + 1)
		sum := 0
		it := parallel.MapIterator[int, int](iterator.Slice([]int{1, 2, 3}), -1, -1, func(x int) int { sim.Yield("earlier-f"); return x })
		for {
			v, ok := it.Next()
			if !ok {
				break
			}
			sum += v
		}
		if sum != 6 {
			r.Violate("C14", "earlier-call/wrong-output", "an earlier MapIterator over [1 2 3] with the identity yielded a sum of %d", sum)
			return
		}
		sim.GOMAXPROCS(g)
	}
	eff := parallelism
	if eff <= 0 {
		eff = r.Cfg.GOMAXPROCS
	}
	constructed := false // the call under test has been made
	// ... and GOMAXPROCS may change while the call under test is at work; the number of workers was
	// fixed when it was made
	if parallelism <= 0 && r.Choose(3, "gomaxprocs-changes-midway") == 2 {
		r.Probe("gomaxprocs-changed-while-running")
		spin := r.Choose(12, "gomaxprocs-change-spin")
		to := []int{r.Cfg.GOMAXPROCS + 3, 1}[r.Choose(2, "gomaxprocs-change-to")]
		sim.GoNamed("gomaxprocs-changer", func() {
			sim.WaitUntil("changer-wait-call", func() bool { return constructed })
			Spin(spin, "changer-pace")
			sim.GOMAXPROCS(to)
		})
	}
	if bufferSize < eff {
		r.Probe("buffer-smaller-than-parallelism")
	}
	bound := bufferSize
	if bound < 0 {
		bound = 0
	}
	bound += eff + 1
	items := make([]int, n)
	for i := range items {
		items[i] = i
	}
	type fplan struct {
		spin    int
		latency time.Duration
		fail    error
		respect bool
	}
	plans := make([]fplan, n)
	firstFail := -1
	// "slow head": one early item takes very long while the following ones finish in a random order,
	// so that the reorder heap fills up with many out-of-order results
	slowHead := -1
	if n > 0 && r.Choose(3, "slow-head") == 2 {
		slowHead = r.Choose(3, "slow-head-at") % n
	}
	for i := range plans {
		p := fplan{spin: r.Choose(3, "fspin")}
		if slowHead >= 0 {
			if i == slowHead {
				p.latency = 900 * time.Millisecond
			} else {
				p.latency = time.Duration(r.Choose(9, "lat-rand")) * 9 * time.Millisecond
			}
			plans[i] = p
			continue
		}
		switch r.Choose(4, "latency") {
		case 2:
			p.latency = time.Duration(1+r.Choose(9, "lat-d")) * 9 * time.Millisecond
		case 3:
			p.latency = time.Duration(n-i) * 17 * time.Millisecond // later items finish first
		}
		if isStream {
			if r.Choose(12, "ffail") == 11 {
				p.fail = NewErr(fmt.Sprintf("F%d", i))
				switch r.Choose(6, "ffail-flavour") { // an error of f's own that merely looks like a context error
				case 4:
					p.fail = context.Canceled
				case 5:
					p.fail = fmt.Errorf("f(%d) gave up: %w", i, context.DeadlineExceeded)
				}
				if firstFail < 0 {
					firstFail = i
				}
			}
			p.respect = r.Choose(2, "respect") == 1
		}
		plans[i] = p
	}
	taken, yielded := 0, 0
	// A Next call that is in progress may already have released its result's slot inside the
	// library although it has not returned yet, so the item it is about to return counts as yielded.
	nextInFlight := 0
	onPull := func() {
		taken++
		out := taken - yielded - nextInFlight
		if out == bound {
			r.Probe("in-flight-at-bound")
		}
		if out > bound {
			r.Violate("C14", "in-flight-bound", "%d source items are taken but not yet yielded (%d taken, %d returned, %d Next call in progress); bufferSize=%d parallelism=%d allows at most %d", out, taken, yielded, nextInFlight, bufferSize, eff, bound)
		}
	}
	running := 0
	completedMax := -1
	var fErrs []error
	f := func(ctx context.Context, x int) (int, error) {
		p := plans[x]
		running++
		defer func() { running-- }()
		Spin(p.spin, "f-body")
		cancelled := false
		if p.latency > 0 {
			if p.respect && ctx != nil {
				if !WaitDone(ctx, p.latency, "f-latency") {
					cancelled = true
				}
			} else {
				sim.Sleep(p.latency, "f-latency")
			}
		}
		if x < completedMax {
			r.Probe("out-of-order-completion")
		}
		if x > completedMax {
			completedMax = x
		}
		if p.fail != nil {
			r.Fault("cb_error")
			fErrs = append(fErrs, p.fail)
			r.Logf("f(%d) -> %v", x, p.fail)
			return 0, p.fail
		}
		if cancelled {
			r.Logf("f(%d) -> %v (its context was cancelled)", x, ctx.Err())
			return 0, ctx.Err()
		}
		r.Logf("f(%d) -> %d", x, x*3+1)
		return x*3 + 1, nil
	}
	cpace := r.Choose(4, "cpace")
	cpause := time.Duration(0)
	if r.Choose(3, "cpause") == 2 {
		cpause = time.Duration(1+r.Choose(6, "cpause-d")) * 13 * time.Millisecond
	}
	r.Logf("config: stream=%v n=%d parallelism=%d(eff %d) bufferSize=%d bound=%d", isStream, n, parallelism, eff, bufferSize, bound)

	if !isStream {
		r.Probe("iterator-variant")
		src := &countingIter{r: r, items: items, onPull: onPull}
		it := parallel.MapIterator[int, int](src, parallelism, bufferSize, func(x int) int {
			v, _ := f(nil, x)
			return v
		})
		constructed = true
		done := false
		sim.GoNamed("consumer", func() {
			for {
				Spin(cpace, "consumer-pace")
				if cpause > 0 {
					sim.Sleep(cpause, "consumer-pause")
				}
				sim.Self().Label = fmt.Sprintf("MapIterator.Next #%d", yielded)
				nextInFlight = 1
				v, ok := it.Next()
				nextInFlight = 0
				sim.Self().Label = ""
				r.Hist("next", v, ok)
				r.Logf("Next -> %d %v", v, ok)
				if !ok {
					if yielded != n {
						r.Violate("C14", "iterator/ended-early", "the iterator ended after %d of %d items", yielded, n)
					}
					break
				}
				if yielded >= n || v != yielded*3+1 {
					r.Violate("C14", "iterator/wrong-value-or-order", "result #%d is %d, expected %d", yielded, v, yielded*3+1)
					break
				}
				yielded++
			}
			done = true
		})
		sim.WaitStuck("parmap-phase1")
		if r.Failed() {
			return
		}
		if !done {
			r.Violate("C14", "iterator/deadlock", "the consumer keeps reading but nothing can run: yielded %d of %d, taken %d: %v", yielded, n, taken, sim.TaskStates())
			return
		}
		if lt := LibraryTasks(); len(lt) > 0 {
			r.Violate("C14", "iterator/goroutines-left", "fully consumed, but goroutines remain: %s", taskNames(lt))
		}
		return
	}

	// ---- MapStream ----
	r.Probe("stream-variant")
	src := NewSrc(r, "src", items)
	src.Delay = map[int]time.Duration{}
	for p := 0; p <= n; p++ {
		if r.Choose(5, "delay") == 4 {
			src.Delay[p] = time.Duration(1+r.Choose(6, "delay-d")) * 7 * time.Millisecond
		}
	}
	blockAt := -1
	if r.Choose(6, "src-block") == 5 {
		// the source goes idle at this position: its Next only returns once its context is done
		blockAt = r.Choose(n+1, "src-block-at")
		src.BlockAt = blockAt
	}
	srcErrAt := -1
	if blockAt < 0 && r.Choose(5, "srcerr") == 4 {
		src.Err = NewErr("srcE")
		src.ErrAt = r.Choose(n+1, "srcerr-at")
		srcErrAt = src.ErrAt
	}
	pulled := 0
	root := RootCtx(r)
	ctorCtx := root
	ctorKind := r.Choose(8, "ctorctx")
	switch ctorKind {
	case 5:
		ctorCtx = NewCtx(root, "ctor")
	case 6:
		// the caller's context is already over when MapStream is called: cancelled, or with its
		// deadline in the past
		ctorCtx = PreCancelled(root, "ctor")
		r.Fault("ctx_precancelled")
		r.Probe("mapstream-called-with-ended-context")
	case 7:
		ctorCtx = PastDeadline(root, "ctor")
		r.Fault("ctx_precancelled")
		r.Probe("mapstream-called-with-ended-context")
	}
	wrapped := &pullCounter{Src: src, onPull: func() { pulled++; onPull() }}
	ms := parallel.MapStream[int, int](ctorCtx.C, wrapped, parallelism, bufferSize, f)
	constructed = true
	closeAfter := -1
	if r.Choose(3, "close-early") == 2 {
		closeAfter = r.Choose(n+1, "close-after")
	}
	if blockAt >= 0 {
		// only the results of the items before the idle point can ever arrive (fewer if f fails)
		limit := blockAt
		if firstFail >= 0 && firstFail < limit {
			limit = firstFail
		}
		closeAfter = r.Choose(limit+1, "close-after-idle")
	}
	cs := &Calls{r: r}
	done := false
	var closeCall *Call
	if ctorKind == 5 {
		spin := r.Choose(20, "ctor-cancel-spin")
		sim.GoNamed("ctor-canceller", func() {
			Spin(spin, "canceller-pace")
			r.Fault("ctx_cancel_midcall")
			ctorCtx.Cancel()
		})
	}
	sim.GoNamed("consumer", func() {
		defer func() { done = true }()
		for k := 0; ; k++ {
			if yielded == closeAfter {
				r.Probe("close-midway")
				r.Fault("close_midflight")
				break
			}
			Spin(cpace, "consumer-pace")
			if cpause > 0 {
				sim.Sleep(cpause, "consumer-pause")
			}
			ctx := root
			switch r.Choose(8, "nextctx") {
			case 6:
				ctx = NewDeadlineCtx(root, fmt.Sprintf("next%d", k), time.Duration(1+r.Choose(8, "ctx-d"))*11*time.Millisecond)
				r.Fault("ctx_deadline")
			case 7:
				ctx = PreCancelled(root, fmt.Sprintf("next%d", k))
				r.Fault("ctx_precancelled")
			}
			c := cs.Begin("consumer", "Next", k, ctx)
			nextInFlight = 1
			v, err := ms.Next(ctx.C)
			nextInFlight = 0
			cs.End(c, v, err == nil, err)
			if err == nil {
				if yielded >= n || v != yielded*3+1 {
					r.Violate("C14", "stream/wrong-value-or-order", "result #%d is %d, expected %d", yielded, v, yielded*3+1)
					return
				}
				if firstFail >= 0 && yielded >= firstFail {
					r.Violate("C14", "stream/result-beyond-failed-item", "a result for item %d was yielded although f failed for item %d", yielded, firstFail)
					return
				}
				if srcErrAt >= 0 && yielded >= srcErrAt {
					r.Violate("C14", "stream/result-beyond-failed-item", "a result for item %d was yielded although the source failed at position %d", yielded, srcErrAt)
					return
				}
				yielded++
				continue
			}
			if isCtxErr(err) && ctx != root && ctx.Dead() && err == ctx.C.Err() {
				r.Probe("next-ctx-expired-then-retried")
				if k > 3*n+20 {
					return
				}
				continue
			}
			// terminal
			switch {
			case err == stream.End:
				if yielded != n || srcErrAt >= 0 || firstFail >= 0 {
					r.Violate("C14", "stream/ended-early", "End after %d of %d results (source error at %d, first failing f %d)", yielded, n, srcErrAt, firstFail)
				}
			case src.Err != nil && err == src.Err:
				r.Probe("source-error")
				if src.EndSeq == 0 {
					r.Violate("C14", "stream/wrong-error", "Next reported the source's error although the source never returned it")
				}
			case isInjected(err, fErrs):
				r.Probe("f-error")
			case isCtxErr(err) && ctorCtx.Dead() && err == ctorCtx.C.Err():
				// the caller's own context ended
			case isCtxErr(err):
				r.Violate("C14", "stream/self-inflicted-cancellation", "Next reported %v, a cancellation the library caused itself (caller contexts are live; source error: %v, f errors: %v)", err, src.Err, fErrs)
			default:
				r.Violate("C14", "stream/wrong-error", "Next reported %v, which neither the source nor f returned", err)
			}
			break
		}
		if r.Failed() {
			return
		}
		c := cs.Begin("consumer", "Close", 0, nil)
		closeCall = c
		ms.Close()
		cs.End(c, 0, true, nil)
		if running != 0 {
			r.Violate("C14", "stream/close-returned-with-f-running", "Close returned while %d calls of f are still running", running)
			return
		}
		if len(src.Closed) != 1 {
			r.Violate("C14", "stream/source-close-count", "after Close returned the source has been closed %d times", len(src.Closed))
			return
		}
	})
	sim.WaitStuck("parmap-phase1")
	if r.Failed() {
		return
	}
	if len(src.Violations) > 0 {
		r.Violate("C14", "stream/source-misuse/"+src.Violations[0], "the source observed: %v", src.Violations)
		return
	}
	if !done {
		for _, c := range cs.Pending() {
			if c.Kind == "Close" {
				r.Violate("C14", "stream/stuck/Close", "Close never returns: %v", sim.TaskStates())
				return
			}
		}
		r.Violate("C14", "stream/deadlock", "the consumer keeps reading but nothing can run: yielded %d of %d, taken %d: %v", yielded, n, taken, sim.TaskStates())
		return
	}
	if lt := LibraryTasks(); len(lt) > 0 {
		r.Violate("C14", "stream/goroutines-left-after-close", "Close returned but goroutines never finish: %s", taskNames(lt))
		return
	}
	if closeCall != nil && src.LastNextRet > closeCall.Ret {
		r.Violate("C14", "stream/source-used-after-close", "the source's Next returned (#%d) after Close had returned (#%d)", src.LastNextRet, closeCall.Ret)
	}
}

func isInjected(err error, set []error) bool {
	for _, e := range set {
		if e == err {
			return true
		}
	}
	return false
}

// pullCounter wraps Src to count successful hand-overs.
type pullCounter struct {
	*Src
	onPull func()
}

func (p *pullCounter) Next(ctx context.Context) (int, error) {
	v, err := p.Src.Next(ctx)
	if err == nil {
		p.onPull()
	}
	return v, err
}
