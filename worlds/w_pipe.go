package worlds

import (
	"context"
	"fmt"

	"github.com/bradenaw/juniper/stream"

	"verifsim/sim"
)

// World `pipe` (C10): 1-3 senders, one closer, one receiver, cancellers, over stream.Pipe.

func init() {
	Register(&World{Name: "pipe", Episodes: true, Props: []string{"C10"}, Concurrent: true, MaxSteps: 4000, Run: pipeWorld})
	ExpectedProbes["pipe"] = []string{"next-with-data-and-closed-both-ready", "send-parked-then-cancelled", "send-after-receiver-closed", "end-reported", "close-error-reported", "trysend-full"}
}

type pipeSendPlan struct {
	try   bool
	ctxK  int // 0 live root, 1 cancellable, 2 pre-cancelled
	ctx   *Ctx
	spin  int
}

func pipeWorld(r *R) {
	if r.Choose(8, "several-pipes") == 7 {
		pipeSeveral(r)
		return
	}
	buf := []int{0, 1, 1, 2, 3}[r.Choose(5, "buf")]
	nSenders := 1 + r.Choose(3, "senders")
	root := RootCtx(r)
	cs := &Calls{r: r}
	sender, recv := stream.Pipe[int](buf)
	bufClass := "buf0"
	if buf > 0 {
		bufClass = "bufN"
	}

	var cancellable []*Ctx
	mkCtx := func(kind int, name string) *Ctx {
		// a context may have been cancelled with a cause - a private error, or one of the values the
		// pipe itself reports (Err() is context.Canceled all the same, and that is what Send and Next
		// report) - and it may be the caller's own, uncomparable, Context implementation
		var cause error
		switch r.Choose(8, "ctx-cause") {
		case 5:
			cause = NewErr("cause")
		case 6:
			cause = stream.End
		case 7:
			cause = stream.ErrClosedPipe
		}
		if cause != nil && kind != 0 {
			r.Probe("ctx-with-cause")
		}
		var c *Ctx
		switch kind {
		case 1:
			if cause != nil {
				c = NewCauseCtx(root, name, cause)
			} else {
				c = NewCtx(root, name)
			}
			cancellable = append(cancellable, c)
		case 2:
			r.Fault("ctx_precancelled")
			if cause != nil {
				c = PreCancelledCause(root, name, cause)
			} else {
				c = PreCancelled(root, name)
			}
		default:
			return root
		}
		if r.Choose(6, "ctx-uncomparable") == 5 {
			c.Uncomparable()
		}
		return c
	}
	ctxKind := func() int {
		switch r.Choose(6, "ctxkind") {
		case 4:
			return 1
		case 5:
			return 2
		}
		return 0
	}

	// plans
	plans := make([][]pipeSendPlan, nSenders)
	total := 0
	for s := range plans {
		k := 1 + r.Choose(3, "nsends")
		for j := 0; j < k; j++ {
			p := pipeSendPlan{try: r.Choose(4, "try") == 3, ctxK: ctxKind(), spin: r.Choose(3, "spin")}
			p.ctx = mkCtx(p.ctxK, fmt.Sprintf("s%d.%d", s, j))
			plans[s] = append(plans[s], p)
			total++
		}
	}
	closeMode := r.Choose(4, "closemode") // 0: never (phase 1), 1,2: Close(nil), 3: Close(err)
	closeSpin := r.Choose(8, "closespin")
	var closeErrWant error
	if closeMode == 3 {
		closeErrWant = NewErr("closeE")
		switch r.Choose(6, "close-err-value") { // a producer passing on why it stopped: errors the library knows too
		case 3:
			closeErrWant = context.Canceled
		case 4:
			closeErrWant = context.DeadlineExceeded
		case 5:
			closeErrWant = stream.ErrClosedPipe
		}
	}
	nNext := total + 3
	recvCloseAfter := -1
	if r.Choose(6, "recv-close-early") == 5 {
		recvCloseAfter = r.Choose(total+1, "recv-close-at")
	}
	recvCtxs := make([]*Ctx, nNext)
	for i := range recvCtxs {
		recvCtxs[i] = mkCtx(ctxKind(), fmt.Sprintf("r.%d", i))
	}
	recvSpin := r.Choose(4, "recvspin")
	r.Logf("config: buf=%d senders=%d sends=%d closeMode=%d recvCloseAfter=%d", buf, nSenders, total, closeMode, recvCloseAfter)

	// shared observation state (only ever touched by the token holder)
	var closeCall *Call
	var recvCloseCall *Call
	sendCalls := map[int]*Call{} // value -> call
	received := map[int]*Call{}
	lastSeq := make([]int, nSenders)
	for i := range lastSeq {
		lastSeq[i] = -1
	}
	var terminal *Call
	terminalNoSendInFlight := false

	sendInFlight := func() bool {
		for _, c := range sendCalls {
			if !c.Returned {
				return true
			}
		}
		return false
	}

	// senders
	for s := 0; s < nSenders; s++ {
		s := s
		sim.GoNamed(fmt.Sprintf("sender%d", s), func() {
			for j, p := range plans[s] {
				Spin(p.spin, "sender-pace")
				if closeCall != nil && closeCall.Returned {
					return // do not start a Send after Close has returned
				}
				v := s*100 + j
				if p.try {
					c := cs.Begin(fmt.Sprintf("sender%d", s), "TrySend", v, p.ctx)
					sendCalls[v] = c
					ok, err := sender.TrySend(p.ctx.C, v)
					cs.End(c, v, ok, err)
					if !ok && err == nil {
						r.Probe("trysend-full")
					}
					pipeCheckSendResult(r, c, recvCloseCall, closeCall, closeErrWant)
				} else {
					c := cs.Begin(fmt.Sprintf("sender%d", s), "Send", v, p.ctx)
					sendCalls[v] = c
					err := sender.Send(p.ctx.C, v)
					cs.End(c, v, err == nil, err)
					if isCtxErr(err) && p.ctxK == 1 {
						r.Probe("send-parked-then-cancelled")
					}
					if err == stream.ErrClosedPipe {
						r.Probe("send-after-receiver-closed")
					}
					pipeCheckSendResult(r, c, recvCloseCall, closeCall, closeErrWant)
				}
			}
		})
	}
	// closer
	if closeMode != 0 {
		sim.GoNamed("closer", func() {
			Spin(closeSpin, "closer-pace")
			c := cs.Begin("closer", "Close", 0, nil)
			closeCall = c
			if closeErrWant != nil {
				r.Fault("sender_close_err")
			}
			sender.Close(closeErrWant)
			cs.End(c, 0, true, nil)
		})
	}
	// canceller
	if len(cancellable) > 0 {
		sim.GoNamed("canceller", func() {
			for _, c := range cancellable {
				Spin(r.Choose(8, "cancel-spin"), "canceller-pace")
				r.Fault("ctx_cancel_midcall")
				c.Cancel()
			}
		})
	}
	// receiver
	sim.GoNamed("receiver", func() {
		extra := 0
		for i := 0; i < nNext; i++ {
			Spin(recvSpin, "receiver-pace")
			if i == recvCloseAfter {
				c := cs.Begin("receiver", "StreamClose", 0, nil)
				recvCloseCall = c
				r.Fault("receiver_close_early")
				recv.Close()
				cs.End(c, 0, true, nil)
				return
			}
			ctx := recvCtxs[i]
			c := cs.Begin("receiver", "Next", i, ctx)
			// probe: is the receiver arriving with both data and sender-closed ready?
			if closeCall != nil && closeCall.Returned {
				for val, sc := range sendCalls {
					if _, got := received[val]; !got && sc.Returned && sc.Err == nil && sc.OK && sc.Ret < closeCall.Inv {
						r.Probe("next-with-data-and-closed-both-ready")
						break
					}
				}
			}
			v, err := recv.Next(ctx.C)
			cs.End(c, v, err == nil, err)
			ctxOK := isCtxErr(err) && ctx.Dead() && err == ctx.C.Err()
			switch {
			case err == nil:
				if terminal != nil && terminalNoSendInFlight && !laterSendSince(sendCalls, terminal) {
					r.Violate("C10", "not-sticky/value-after-terminal/"+bufClass, "Next returned value %d after the receiver had already been told %v (call %v) at a moment when no Send was in flight", v, terminal.Err, terminal)
				}
				sc, sent := sendCalls[v]
				if !sent {
					r.Violate("C10", "unsent-value", "Next returned %d, which no sender ever passed to Send/TrySend", v)
					continue
				}
				if prev, dup := received[v]; dup {
					r.Violate("C10", "duplicate", "value %d was received twice (%v and %v)", v, prev, c)
					continue
				}
				received[v] = c
				s, j := v/100, v%100
				if j <= lastSeq[s] {
					r.Violate("C10", "per-sender-order", "sender %d's value #%d arrived after its value #%d", s, j, lastSeq[s])
				}
				lastSeq[s] = j
				if sc.Returned && (sc.Err != nil || !sc.OK) {
					r.Violate("C10", "received-failed-send", "value %d was received although its %s had reported failure: %v", v, sc.Kind, sc)
				}
			case ctxOK && closeErrWant != nil && err == closeErrWant && closeCall != nil:
				// the close error is the very error this call's own expired context gives: either
				// reading is in order, and the laxer one (no end has been announced) is taken
				r.Probe("close-error-indistinguishable-from-ctx-error")
			case ctxOK:
				// this call's own context
			case err == stream.End || (closeErrWant != nil && err == closeErrWant):
				if closeCall == nil {
					r.Violate("C10", "end-without-close", "Next reported %v although the sender was never closed", err)
					continue
				}
				if err == stream.End && closeErrWant != nil {
					r.Violate("C10", "end-instead-of-close-error", "Next reported End although the sender was closed with error %v", closeErrWant)
				}
				if err == stream.End {
					r.Probe("end-reported")
				} else {
					r.Probe("close-error-reported")
				}
				if terminal == nil {
					terminal = c
					terminalNoSendInFlight = !sendInFlight()
					// every value whose Send returned nil before Close was invoked must have arrived by now
					for val, sc := range sendCalls {
						if sc.Returned && sc.Err == nil && sc.OK && sc.Ret < closeCall.Inv {
							if _, ok := received[val]; !ok {
								r.Violate("C10", "lost-before-close/"+bufClass, "the receiver was told %v (call %v) although value %d, whose %s returned success (#%d) before Close was invoked (#%d), has not been delivered", err, c, val, sc.Kind, sc.Ret, closeCall.Inv)
							}
						}
					}
				} else if terminal.Err != err {
					r.Violate("C10", "not-sticky/different-terminal", "Next reported %v after having reported %v", err, terminal.Err)
				}
				extra++
				if extra >= 3 {
					return
				}
			case isCtxErr(err):
				if !ctx.Dead() {
					r.Violate("C10", "ctx-error-with-live-ctx/Next", "Next returned %v although its context is live", err)
				}
			default:
				r.Violate("C10", "wrong-error/Next", "Next returned unexpected error %v (close error is %v)", err, closeErrWant)
			}
		}
	})

	// ---- phase 1: run until nothing can happen any more -------------------------------------
	sim.WaitStuck("pipe-phase1")
	if r.Failed() {
		return
	}
	undelivered := 0
	if closeCall != nil {
		for val, sc := range sendCalls {
			if sc.Returned && sc.Err == nil && sc.OK && sc.Ret < closeCall.Inv {
				if _, ok := received[val]; !ok {
					undelivered++
				}
			}
		}
	} else {
		for val, sc := range sendCalls {
			if sc.Returned && sc.Err == nil && sc.OK {
				if _, ok := received[val]; !ok {
					undelivered++
				}
			}
		}
	}
	for _, c := range cs.Pending() {
		switch c.Kind {
		case "TrySend":
			r.Violate("C10", "stuck/TrySend", "TrySend is blocked: %v", c)
		case "Send":
			switch {
			case recvCloseCall != nil && recvCloseCall.Returned:
				r.Violate("C10", "stuck/Send/receiver-closed", "Send is still blocked although the receiver closed: %v", c)
			case closeCall != nil && closeCall.Returned:
				r.Violate("C10", "stuck/Send/sender-closed", "Send is still blocked although the sender closed: %v", c)
			case c.Ctx.Dead():
				r.Violate("C10", "stuck/Send/ctx-expired", "Send is still blocked although its context expired: %v", c)
			}
		case "Next":
			switch {
			case closeCall != nil && closeCall.Returned:
				r.Violate("C10", "stuck/Next/sender-closed", "Next is still blocked although the sender closed: %v", c)
			case c.Ctx.Dead():
				r.Violate("C10", "stuck/Next/ctx-expired", "Next is still blocked although its context expired: %v", c)
			case undelivered > 0:
				r.Violate("C10", "stuck/Next/value-available", "Next is still blocked although %d successfully sent values are undelivered: %v", undelivered, c)
			}
		case "Close", "StreamClose":
			r.Violate("C10", "stuck/"+c.Kind, "%s is blocked: %v", c.Kind, c)
		}
	}
	if r.Failed() {
		return
	}
	// ---- phase 2: expire every context; everything must come back ----------------------------
	if root.Uncancellable {
		// (calls made with context.Background() that are still parked - nothing sent, nobody closed -
		// have nothing to come back for)
		for _, c := range cancellable {
			c.Cancel()
		}
		sim.WaitStuck("pipe-phase2")
		for _, c := range cs.Pending() {
			if c.Ctx != root {
				r.Violate("C10", "stuck/"+c.Kind+"/ctx-expired", "%s is still blocked although its context expired: %v", c.Kind, c)
			}
		}
		return
	}
	root.Cancel()
	sim.WaitStuck("pipe-phase2")
	for _, c := range cs.Pending() {
		r.Violate("C10", "stuck/"+c.Kind+"/ctx-expired", "%s is still blocked although its context expired: %v", c.Kind, c)
	}
}

// laterSendSince reports whether some Send was in flight at any moment from the invocation of the
// Next call that reported the terminal onwards. ("Once no Send is in flight" the report is final; a
// Send that overlaps that very Next call may still slip its value in behind the call's last look
// at the buffer - in the shipped code that window holds no synchronisation operation and cannot be
// scheduled into, but it is there, and a correct refactoring that puts a lock into it shows it.)
func laterSendSince(sendCalls map[int]*Call, terminal *Call) bool {
	for _, c := range sendCalls {
		if !c.Returned || c.Ret > terminal.Inv {
			return true
		}
	}
	return false
}

func pipeCheckSendResult(r *R, c *Call, recvClose, senderClose *Call, closeErr error) {
	err := c.Err
	if err == nil {
		return
	}
	// The close error may be a value the library uses itself (context.Canceled, ErrClosedPipe): an
	// error is in order if any one of its possible reasons applies.
	if isCtxErr(err) && c.Ctx.Dead() && err == c.Ctx.C.Err() {
		return
	}
	if err == stream.ErrClosedPipe && recvClose != nil {
		return
	}
	if closeErr != nil && err == closeErr && senderClose != nil {
		return
	}
	switch {
	case err == stream.ErrClosedPipe:
		r.Violate("C10", "wrong-error/"+c.Kind+"/closed-pipe", "%s returned ErrClosedPipe although the receiver never closed", c.Kind)
	case isCtxErr(err):
		r.Violate("C10", "ctx-error-with-live-ctx/"+c.Kind, "%s returned %v although its context is live", c.Kind, err)
	case closeErr != nil && err == closeErr:
		r.Violate("C10", "wrong-error/"+c.Kind+"/close-error", "%s returned the close error although Close was never invoked", c.Kind)
	default:
		r.Violate("C10", "wrong-error/"+c.Kind, "%s returned unexpected error %v", c.Kind, err)
	}
}
