package worlds

import (
	"fmt"

	"github.com/bradenaw/juniper/stream"
)

// pipeSeveral is a side scenario of the pipe world (1 run in 8): several pipes live in the same
// process, created at different moments, used one operation at a time by a single task. Each must
// behave as if it were alone - nothing one pipe is told (its close error, its closed state, its
// buffered values) may show up in another. Only operations that cannot block are issued, so every
// result is determined by the pipe's own history.
func pipeSeveral(r *R) {
	r.Probe("several-pipes-in-one-process")
	type pp struct {
		id        int
		buf       int
		s         *stream.PipeSender[int]
		rc        stream.Stream[int]
		q         []int // values accepted and not yet received
		sClosed   bool
		sErr      error
		rClosed   bool
		announced bool // the end / close error has been reported to the receiver
		next      int
	}
	root := NewCtx(nil, "root")
	var pipes []*pp
	mk := func() {
		p := &pp{id: len(pipes), buf: 1 + r.Choose(3, "buf")}
		p.s, p.rc = stream.Pipe[int](p.buf)
		pipes = append(pipes, p)
		r.Hist("new", p.id, p.buf)
	}
	mk()
	steps := 10 + r.Choose(30, "several-steps")
	for i := 0; i < steps && !r.Failed(); i++ {
		r.Ops++
		if len(pipes) < 4 && r.Choose(6, "new-pipe") == 5 {
			mk()
			continue
		}
		p := pipes[r.Choose(len(pipes), "which-pipe")]
		switch r.Choose(6, "several-op") {
		case 0, 1: // TrySend
			if p.sClosed && p.rClosed {
				continue // two reasons to refuse: which one is reported is the select's choice
			}
			v := p.id*100 + p.next
			ok, err := p.s.TrySend(root.C, v)
			r.Hist("trysend", p.id, ok, err)
			switch {
			case p.rClosed:
				if ok || err != stream.ErrClosedPipe {
					r.Violate("C10", "several/trysend-after-receiver-closed", "pipe %d: TrySend after the receiver closed returned (%v, %v)", p.id, ok, err)
				}
			case p.sClosed:
				if ok || err != p.sErr {
					r.Violate("C10", "several/trysend-after-sender-closed", "pipe %d: TrySend after Close(%v) returned (%v, %v)", p.id, p.sErr, ok, err)
				}
			case len(p.q) < p.buf:
				if !ok || err != nil {
					r.Violate("C10", "several/trysend-refused", "pipe %d: TrySend with %d of %d buffer slots used returned (%v, %v)", p.id, len(p.q), p.buf, ok, err)
				} else {
					p.q = append(p.q, v)
					p.next++
				}
			default:
				if ok || err != nil {
					r.Violate("C10", "several/trysend-full", "pipe %d: TrySend on a full buffer returned (%v, %v)", p.id, ok, err)
				}
			}
		case 2: // Send, only when it cannot block
			if p.sClosed || p.rClosed || len(p.q) >= p.buf {
				continue
			}
			v := p.id*100 + p.next
			err := p.s.Send(root.C, v)
			r.Hist("send", p.id, err)
			if err != nil {
				r.Violate("C10", "several/send-refused", "pipe %d: Send with room in the buffer returned %v", p.id, err)
			} else {
				p.q = append(p.q, v)
				p.next++
			}
		case 3: // sender Close, once
			if p.sClosed {
				continue
			}
			if r.Choose(2, "close-err") == 1 {
				p.sErr = NewErr(fmt.Sprintf("close-of-pipe-%d", p.id))
			}
			p.s.Close(p.sErr)
			p.sClosed = true
			r.Hist("close", p.id, p.sErr)
		case 4: // receiver Close, once
			if p.rClosed {
				continue
			}
			p.rc.Close()
			p.rClosed = true
			r.Hist("rclose", p.id)
		default: // Next, only when it cannot block
			if p.rClosed || (len(p.q) == 0 && !p.sClosed) {
				continue
			}
			v, err := p.rc.Next(root.C)
			r.Hist("next", p.id, v, err)
			switch {
			case len(p.q) > 0:
				if err != nil || v != p.q[0] {
					r.Violate("C10", "several/next-wrong-value", "pipe %d: Next returned (%d, %v); its oldest buffered value is %d (other pipes: %d)", p.id, v, err, p.q[0], len(pipes)-1)
				} else {
					p.q = p.q[1:]
				}
			case p.sErr != nil:
				if err != p.sErr {
					r.Violate("C10", "several/next-wrong-terminal", "pipe %d was closed with %v and is drained, but Next returned (%d, %v) (other pipes: %d)", p.id, p.sErr, v, err, len(pipes)-1)
				}
				p.announced = true
			default:
				if err != stream.End {
					r.Violate("C10", "several/next-wrong-terminal", "pipe %d was closed without error and is drained, but Next returned (%d, %v) (other pipes: %d)", p.id, v, err, len(pipes)-1)
				}
				p.announced = true
			}
		}
	}
}
