package worlds

import (
	"math"
	"fmt"
	"math/rand"
	"sort"

	"github.com/bradenaw/juniper/iterator"
	"github.com/bradenaw/juniper/stream"
	"github.com/bradenaw/juniper/xmath/xrand"
	"github.com/bradenaw/juniper/xslices"

	"verifsim/context"
	"verifsim/sim"
	"verifsim/time"
)

// World `pipeline` (C07 fault-free configuration; C08 fault configurations with single-fault
// enumeration; C09 ownership of every source in all of them).

func init() {
	Register(&World{Name: "pipeline", Props: []string{"C07", "C08", "C09"}, Concurrent: true, Timed: false, MaxSteps: 60000, Run: pipelineWorld})
	ExpectedProbes["pipeline/C07"] = []string{"depth-4", "iterator-agrees", "stream-agrees", "reducer-collect", "reducer-last", "reducer-one", "reducer-reduce", "iterator-equal", "xslices-agrees", "laziness-checked", "end-sticky-checked", "op-filter", "op-map", "op-first", "op-while", "op-compact", "op-compactfunc", "op-peek", "op-chunk", "op-chunkflat", "op-runssep", "op-runsflat", "op-runshead", "op-flatmap", "op-join", "xslices-arguments-untouched", "last-n-zero", "last-n-huge", "ilast-n-huge", "chan-leaf-fed-live", "flatten-aliased-slices"}
	ExpectedProbes["pipeline/C08"] = []string{"fault-src-error", "fault-cb-error", "fault-ctx-precancelled", "fault-transient", "fault-ctx-deadline-midcall", "error-with-chunk-pending", "error-inside-flatten-inner", "error-in-mapstream", "error-in-batch", "error-in-merge", "single-fault-exhaustive", "multi-fault", "reducer-error", "fault-not-reached", "chan-leaf-fed-live", "chan-feeder-slow-under-deadline"}
	ExpectedProbes["pipeline/C09"] = []string{"own-abandoned-early", "own-read-to-end", "own-after-error", "own-reducer", "own-flatten-inner", "own-join-later-args", "own-merge-inputs", "own-mapstream", "own-batch", "own-samplestream", "own-reducer-called-with-ended-context"}
}

type pScript struct {
	mode       string // iterate | collect | last | one | reduce | sample
	lastN      int
	abandonAt  int          // iterate: Close after this many outputs (-1: read to the end)
	preCancel  map[int]bool // iterate: Next call indices made with an already-cancelled context (then retried)
	asProp     string       // attribute output violations of this execution to this property
	reduceFail int          // reduce: the reduction callback fails on this call (0: never)
	deadlineAt map[int]time.Duration
	// deadCtx: the reducer is called with a context that has already ended (cancelled, or with its
	// deadline in the past). Only ownership is judged: whatever it returns, it closes what it was given.
	deadCtx bool
}

type pResult struct {
	outs      []int
	term      error // nil: End seen (ended) or abandoned
	ended     bool
	abandoned bool
	nextCalls int
	retVal    []int // reducers
	b         *sbuild
	failed    []error
	srcPosAt  []map[int]int
	reduceErr         error
	closedAtReturn    map[*Src]int
	spyClosedAtReturn map[*closeSpy]int
}

func pipelineWorld(r *R) {
	g := &pgen{r: r, maxSrc: 3, allowGo: r.Focus != "C07"}
	prog := g.program()
	goBacked := prog.has("mapstream", "batch", "merge")
	depth := progDepth(prog)
	if depth >= 4 {
		r.Probe("depth-4")
	}
	prog.walk(func(n *pnode) { r.Probe("op-" + n.op) })
	r.Logf("program: %v", prog)

	// fault-free model
	env := &mEnv{srcs: map[int]*mSrc{}, cbFail: -1}
	X, _, pulls := mDrain(mBuild(prog, env, nil, nil, nil), env, 4000)
	r.Logf("model output: %v", X)
	r.Hist(fmt.Sprint(X))
	slack := 0
	prog.walk(func(n *pnode) {
		switch n.op {
		case "while", "runssep", "runsflat", "runshead", "peek", "compact", "compactfunc":
			slack++
		}
	})

	if r.Focus == "C07" {
		pipelineIteratorChecks(r, prog, X, pulls, slack)
		if r.Failed() {
			return
		}
		pipelineXslices(r)
		if r.Failed() {
			return
		}
	}

	// fault-free stream execution, manual iteration to the end
	base := &pScript{mode: "iterate", abandonAt: -1}
	res := pipelineExec(r, prog, newFaultPlan(), base, true)
	if r.Failed() {
		return
	}
	pipelineJudge(r, prog, res, newFaultPlan(), base, X, pulls, slack, true)
	if r.Failed() {
		return
	}
	cbTotal := res.b.cbCalls
	nextTotal := res.nextCalls
	// (How often user callbacks are called is not part of the property - it speaks of source items -
	// so it is not judged: a correct implementation may evaluate a pure predicate twice.)
	if r.Focus == "C07" {
		// reducers on fresh instantiations
		for _, mode := range []string{"collect", "last", "reduce", "one"} {
			sc := &pScript{mode: mode, abandonAt: -1}
			if mode == "last" {
				// "fewer than n items: all of them" holds for every n, also one far beyond anything that
				// could be allocated up front
				sc.lastN = []int{0, 1, len(X) - 1, len(X), len(X) + 1, 2, math.MaxInt, 1 << 48}[r.Choose(8, "last-n")]
				if sc.lastN < 0 {
					sc.lastN = 0
				}
				if sc.lastN == 0 {
					r.Probe("last-n-zero")
				}
				if sc.lastN > 1<<30 {
					r.Probe("last-n-huge")
				}
			}
			rr := pipelineExec(r, prog, newFaultPlan(), sc, false)
			if r.Failed() {
				return
			}
			pipelineJudge(r, prog, rr, newFaultPlan(), sc, X, pulls, slack, false)
			if r.Failed() {
				return
			}
		}
		// laziness also means that a Next call which cannot proceed (its context has already expired)
		// requests nothing: every other call is made with a dead context first, and the sequence
		// must come out unchanged
		sc := &pScript{mode: "iterate", abandonAt: -1, preCancel: map[int]bool{}, asProp: "C07"}
		for i := 0; i < 3*nextTotal+6; i += 2 {
			sc.preCancel[i] = true
		}
		rr := pipelineExec(r, prog, newFaultPlan(), sc, false)
		if r.Failed() {
			return
		}
		pipelineJudge(r, prog, rr, newFaultPlan(), sc, X, pulls, slack, false)
		return
	}

	// ---- fault configurations (C08, C09) -----------------------------------------------------
	type site struct {
		kind string
		id   int
		p    int
	}
	var sites []site
	prog.walk(func(n *pnode) {
		if n.op == "src" {
			for p := 0; p <= len(n.items); p++ {
				sites = append(sites, site{"src_error", n.id, p})
				if !goBacked {
					sites = append(sites, site{"src_transient", n.id, p})
				}
				if !prog.has("batch") {
					sites = append(sites, site{"src_slow_deadline", n.id, p})
				}
			}
		}
	})
	prog.walk(func(n *pnode) {
		if n.op == "chan" && n.m == 1 && !prog.has("batch") {
			for p := 0; p <= len(n.items); p++ {
				sites = append(sites, site{"chan_slow_deadline", n.id, p})
			}
		}
	})
	for k := 0; k < cbTotal; k++ {
		sites = append(sites, site{"cb_error", 0, k})
	}
	for i := 0; i < nextTotal; i++ {
		sites = append(sites, site{"ctx_precancelled", 0, i})
	}
	for j := 0; j <= len(X) && j < 12; j++ {
		sites = append(sites, site{"abandon", 0, j})
	}
	for _, mode := range []string{"collect", "last", "one", "reduce", "sample"} {
		sites = append(sites, site{"reducer-" + mode, 0, 0})
	}
	const capExec = 40
	chosen := sites
	if len(sites) > capExec {
		// a tape-chosen subset
		chosen = nil
		start := r.Choose(len(sites), "site-start")
		step := 1 + len(sites)/capExec
		for i := 0; i < capExec; i++ {
			chosen = append(chosen, sites[(start+i*step)%len(sites)])
		}
	} else {
		r.Probe("single-fault-exhaustive")
	}
	mk := func(s site) (*faultPlan, *pScript) {
		plan := newFaultPlan()
		sc := &pScript{mode: "iterate", abandonAt: -1}
		switch s.kind {
		case "src_error":
			plan.srcErrAt[s.id] = s.p
			// mostly a private error value; sometimes a well-known one that the library itself also uses
			switch r.Choose(8, "src-err-value") {
			case 5:
				plan.srcErr[s.id] = context.Canceled
			case 6:
				plan.srcErr[s.id] = context.DeadlineExceeded
			case 7:
				plan.srcErr[s.id] = stream.ErrClosedPipe
			default:
				plan.srcErr[s.id] = NewErr(fmt.Sprintf("srcE%d@%d", s.id, s.p))
			}
			sc.mode = []string{"iterate", "iterate", "iterate", "collect", "reduce", "last", "one", "sample"}[r.Choose(8, "fault-consumer")]
			sc.lastN = 2 * r.Choose(2, "fault-consumer-n")
		case "src_transient":
			plan.transient[s.id] = map[int]error{s.p: NewErr(fmt.Sprintf("transient%d@%d", s.id, s.p))}
		case "src_slow_deadline":
			plan.delay[s.id] = map[int]time.Duration{s.p: 70 * time.Millisecond}
			sc.deadlineAt = map[int]time.Duration{}
			for i := 0; i < nextTotal+2; i++ {
				sc.deadlineAt[i] = 30 * time.Millisecond
			}
		case "chan_slow_deadline":
			r.Probe("chan-feeder-slow-under-deadline")
			plan.chanSlow[s.id] = s.p
			sc.deadlineAt = map[int]time.Duration{}
			for i := 0; i < nextTotal+2; i++ {
				sc.deadlineAt[i] = 30 * time.Millisecond
			}
		case "cb_error":
			plan.cbFail = s.p
			plan.cbErr = NewErr(fmt.Sprintf("cbE@%d", s.p))
			sc.mode = []string{"iterate", "iterate", "iterate", "collect", "reduce", "last", "one", "sample"}[r.Choose(8, "fault-consumer")]
			sc.lastN = 2 * r.Choose(2, "fault-consumer-n")
		case "ctx_precancelled":
			sc.preCancel = map[int]bool{s.p: true}
		case "abandon":
			sc.abandonAt = s.p
		default:
			sc.mode = s.kind[len("reducer-"):]
			if sc.mode == "last" {
				sc.lastN = 2
			}
			if sc.mode == "sample" {
				sc.lastN = []int{3, 0, 1, len(X), len(X) + 1}[r.Choose(5, "sample-k")]
			}
			if sc.mode == "reduce" {
				sc.reduceFail = r.Choose(len(X)+2, "reduce-fail") // 0: the callback never fails
			}
		}
		return plan, sc
	}
	for _, s := range chosen {
		plan, sc := mk(s)
		r.Logf("--- single fault: %s id=%d p=%d", s.kind, s.id, s.p)
		rr := pipelineExec(r, prog, plan, sc, false)
		if r.Failed() {
			return
		}
		pipelineJudge(r, prog, rr, plan, sc, X, pulls, slack, false)
		if r.Failed() {
			return
		}
	}
	if r.Focus == "C09" {
		// a reducer called with a context that is already over still owns the stream it was given
		sc := &pScript{mode: []string{"collect", "reduce", "last", "one", "sample"}[r.Choose(5, "dead-ctx-reducer")], abandonAt: -1, lastN: 2, deadCtx: true}
		plan := newFaultPlan()
		pipelineJudge(r, prog, pipelineExec(r, prog, plan, sc, false), plan, sc, X, pulls, slack, false)
		if r.Failed() {
			return
		}
	}
	// one sampled combination of 2-4 faults
	if len(sites) >= 2 {
		r.Probe("multi-fault")
		plan := newFaultPlan()
		sc := &pScript{mode: "iterate", abandonAt: -1, preCancel: map[int]bool{}}
		nf := 2 + r.Choose(3, "nfaults")
		for k := 0; k < nf; k++ {
			s := sites[r.Choose(len(sites), "fault-site")]
			p1, s1 := mk(s)
			for id, p := range p1.srcErrAt {
				plan.srcErrAt[id], plan.srcErr[id] = p, p1.srcErr[id]
			}
			for id, t := range p1.transient {
				if plan.transient[id] == nil {
					plan.transient[id] = map[int]error{}
				}
				for p, e := range t {
					plan.transient[id][p] = e
				}
			}
			if p1.cbFail >= 0 {
				plan.cbFail, plan.cbErr = p1.cbFail, p1.cbErr
			}
			for i := range s1.preCancel {
				sc.preCancel[i] = true
			}
			if s1.abandonAt >= 0 {
				sc.abandonAt = s1.abandonAt
			}
		}
		if r.Choose(3, "precancel-pattern") == 2 {
			// every other Next is made with an expired context first
			for i := 0; i < 3*nextTotal+6; i += 2 {
				sc.preCancel[i] = true
			}
		}
		r.Logf("--- multi fault: %+v script=%+v", plan, sc)
		rr := pipelineExec(r, prog, plan, sc, false)
		if r.Failed() {
			return
		}
		pipelineJudge(r, prog, rr, plan, sc, X, pulls, slack, false)
	}
}

func progDepth(n *pnode) int {
	d := 0
	for _, k := range n.kids {
		if x := progDepth(k); x > d {
			d = x
		}
	}
	return d + 1
}

// pipelineExec instantiates the program over juniper's stream package and runs the consumer
// script against it (in the calling task).
func pipelineExec(r *R, prog *pnode, plan *faultPlan, sc *pScript, checkLazy bool) *pResult {
	root := RootCtx(r)
	b := &sbuild{r: r, plan: plan, owner: map[*Src]string{}, byID: map[int]*Src{}, bg: root}
	res := &pResult{b: b}
	b.spy = &rootSpy{inner: b.build(prog, "consumer")}
	var s stream.Stream[int] = b.spy
	for _, src := range b.srcs {
		if src.NextCalls != 0 {
			r.Violate("C07", "lazy/pull-at-construction", "source %s was pulled %d times before the consumer's first Next", src.Name, src.NextCalls)
			return res
		}
	}
	task := sim.Self()
	rctx := root.C // the context the reducers are called with
	if sc.deadCtx {
		r.Fault("ctx_precancelled")
		if r.Choose(2, "dead-by-deadline") == 1 {
			rctx = PastDeadline(root, "reducer").C
		} else {
			rctx = PreCancelled(root, "reducer").C
		}
	}
	switch sc.mode {
	case "iterate":
		ended := 0
		// (every other call may be made with an expired context first, so a program with a few
		// hundred outputs needs twice as many calls; a stream that never ends is cut by the limit)
		const callLimit = 2*runawayLimit + 100
		call := 0
		for ; call < callLimit; call++ {
			if len(res.outs) == sc.abandonAt && ended == 0 {
				res.abandoned = true
				r.Fault("consumer_abandon")
				break
			}
			ctx := root
			if b.perCallCtx {
				ctx = NewCtx(root, fmt.Sprintf("call%d", call))
			}
			b.curCtx = nil
			if ctx != root {
				b.curCtx = ctx
			}
			if sc.preCancel[call] {
				ctx = PreCancelled(root, fmt.Sprintf("pre%d", call))
				r.Fault("ctx_precancelled")
				r.Probe("fault-ctx-precancelled")
			} else if d, ok := sc.deadlineAt[call]; ok {
				ctx = NewDeadlineCtx(root, fmt.Sprintf("dl%d", call), d)
			}
			task.Label = fmt.Sprintf("consumer Next #%d on %s", call, prog.op)
			v, err := s.Next(ctx.C)
			task.Label = ""
			res.nextCalls++
			r.Logf("Next#%d -> (%d, %v)", call, v, err)
			r.Hist("next", v, err)
			if err == nil {
				if ended > 0 {
					r.Violate("C07", "end-not-sticky/"+prog.op, "Next returned item %d after End had been reported", v)
					return res
				}
				res.outs = append(res.outs, v)
				if checkLazy {
					pos := map[int]int{}
					for id, src := range b.byID {
						pos[id] = src.Pos
					}
					res.srcPosAt = append(res.srcPosAt, pos)
				}
				continue
			}
			if err == stream.End {
				ended++
				res.ended = true
				if ended >= 4 || !checkLazy {
					break
				}
				continue
			}
			if ended > 0 {
				r.Violate("C07", "end-not-sticky/"+prog.op, "Next returned error %v after End had been reported", err)
				return res
			}
			if isCtxErr(err) && ctx != root && ctx.Dead() && err == ctx.C.Err() {
				if ctx.HasDeadline {
					r.Fault("ctx_deadline")
					r.Probe("fault-ctx-deadline-midcall")
				}
				res.failed = append(res.failed, err)
				continue // retry with the next context
			}
			if isTransient(plan, err) {
				r.Probe("fault-transient")
				res.failed = append(res.failed, err)
				continue
			}
			res.term = err
			break
		}
		if call >= callLimit {
			res.term = errRunaway
		}
		task.Label = "consumer Close on " + prog.op
		s.Close()
		task.Label = ""
	case "collect":
		task.Label = "stream.Collect on " + prog.op
		out, err := stream.Collect(rctx, s)
		res.retVal, res.term, res.outs = out, err, out
		res.ended = err == nil
	case "last":
		task.Label = "stream.Last on " + prog.op
		var out []int
		var err error
		func() {
			defer func() {
				if p := recover(); p != nil {
					passThrough(p)
					if p == sim.Killed {
						panic(p)
					}
					r.Violate("C07", "reducer/Last/panic/n="+clampN(sc.lastN), "stream.Last(n=%d) panicked: %v", sc.lastN, p)
				}
			}()
			out, err = stream.Last(rctx, s, sc.lastN)
		}()
		res.retVal, res.term = out, err
		res.ended = err == nil
	case "one":
		task.Label = "stream.One on " + prog.op
		v, err := stream.One(rctx, s)
		res.retVal, res.term = []int{v}, err
		res.ended = true
	case "reduce":
		task.Label = "stream.Reduce on " + prog.op
		ncalls := 0
		v, err := stream.Reduce(rctx, s, 0, func(acc int, x int) (int, error) {
			ncalls++
			if ncalls == sc.reduceFail {
				r.Fault("cb_error")
				res.reduceErr = NewErr("reduceE")
				return acc, res.reduceErr
			}
			return acc*31 + x, nil
		})
		res.retVal, res.term = []int{v}, err
		res.ended = err == nil
	case "sample":
		task.Label = "xrand.RSampleStream on " + prog.op
		rng := rand.New(rand.NewSource(int64(r.Choose(1000, "sample-seed"))))
		out, err := xrand.RSampleStream(rctx, rng, s, sc.lastN)
		res.retVal, res.term = out, err
		res.ended = err == nil
	}
	task.Label = ""
	// ownership is judged at this instant: "by the time the reducer / the returned stream's Close returns"
	res.closedAtReturn = map[*Src]int{}
	for _, src := range b.srcs {
		res.closedAtReturn[src] = len(src.Closed)
	}
	res.spyClosedAtReturn = map[*closeSpy]int{}
	for _, sp := range b.spies {
		res.spyClosedAtReturn[sp] = sp.Closes
	}
	// let background goroutines finish
	for i := 0; i < 200 && len(LibraryTasks()) > 0; i++ {
		sim.WaitIdle("pipeline-settle")
		if lt := LibraryTasks(); len(lt) > 0 {
			allBlocked := true
			for _, t := range lt {
				if !t.BlockedInOp() && !t.Parked() {
					allBlocked = false
				}
			}
			if allBlocked {
				break
			}
		}
	}
	return res
}

func clampN(n int) string {
	if n == 0 {
		return "0"
	}
	if n > 1<<30 {
		return "huge"
	}
	return "positive"
}

func isTransient(plan *faultPlan, err error) bool {
	for _, t := range plan.transient {
		for _, e := range t {
			if e == err {
				return true
			}
		}
	}
	return false
}

// pipelineJudge evaluates the C07/C08/C09 oracles on one execution.
func pipelineJudge(r *R, prog *pnode, res *pResult, plan *faultPlan, sc *pScript, X []int, pulls []map[int]int, slack int, faultFree bool) {
	b := res.b
	// which injected faults actually fired?
	var fired []error
	srcFired := false
	for id, p := range plan.srcErrAt {
		_ = p
		if s := b.byID[id]; s != nil && s.ErrAt >= 0 && s.EndSeq != 0 {
			fired = append(fired, plan.srcErr[id])
			srcFired = true
			r.Probe("fault-src-error")
		}
	}
	if b.cbFired {
		fired = append(fired, plan.cbErr)
		r.Probe("fault-cb-error")
	}
	if res.reduceErr != nil {
		fired = append(fired, res.reduceErr)
	}
	if len(plan.srcErrAt)+boolInt(plan.cbFail >= 0) > 0 && len(fired) == 0 {
		r.Probe("fault-not-reached")
	}
	if b.peekViolation != "" {
		r.Violate("C07", "peek-next-mismatch", "%s", b.peekViolation)
		return
	}
	root := prog.op
	if r.Focus == "C07" {
		for _, chk := range b.argChecks {
			if msg := chk(); msg != "" {
				r.Violate("C07", "argument-slice-modified/stream", "%s (program %v)", msg, prog)
				return
			}
		}
	}
	if res.term == errRunaway {
		r.Violate(r.Focus, "does-not-terminate/"+root, "the stream kept producing items far beyond the reference output %v and never reported the end (program %v)", X, prog)
		return
	}

	// ---- C09: ownership --------------------------------------------------------------------
	// (evaluated only when C09 is the property being checked: an ownership defect does not disturb
	// the reference outputs, so it must not end a run of C07/C08 as a sibling's violation would)
	via := sc.mode
	ownership := r.Focus == "C09"
	if via == "iterate" {
		via = "Close"
	}
	if ownership && sc.mode != "iterate" && b.spy.Closes == 0 {
		r.Violate("C09", "close-count/reducer-never-closes/"+sc.mode, "%s returned without closing the stream it was given (program %v)", sc.mode, prog)
		return
	}
	if ownership && b.spy.Closes > 1 {
		r.Violate("C09", "close-count/reducer-closes-twice/"+sc.mode, "%s closed its stream %d times", sc.mode, b.spy.Closes)
		return
	}
	if ownership && b.spy.NextAfterClose {
		r.Violate("C09", "misuse/next-after-close/reducer/"+sc.mode, "%s called Next after Close on the stream it was given", sc.mode)
		return
	}
	// blame the highest construct that did not close exactly once what it was given
	spies := append([]*closeSpy(nil), b.spies...)
	sort.SliceStable(spies, func(i, j int) bool { return spies[i].depth < spies[j].depth })
	if !ownership {
		spies = nil
	}
	for _, sp := range spies {
		if sp.NextAfterClose {
			r.Violate("C09", "misuse/next-after-close/"+sp.owner, "%s called Next on its %s input after closing it (program %v)", sp.owner, sp.what, prog)
			return
		}
		if n, ok := res.spyClosedAtReturn[sp]; ok && n == 0 && sp.Closes == 1 {
			r.Violate("C09", "closed-late/"+sp.owner, "the %s stream handed to %s had not been closed yet when %s returned (it was closed afterwards, in the background) (program %v)", sp.what, sp.owner, via, prog)
			return
		}
		if sp.Closes != 1 {
			r.Violate("C09", fmt.Sprintf("close-count/%s/closes=%d", sp.owner, sp.Closes), "the %s stream handed to %s was closed %d times by the time %s returned (program %v)", sp.what, sp.owner, sp.Closes, via, prog)
			return
		}
	}
	for _, s := range b.srcs {
		if !ownership {
			break
		}
		if len(s.Violations) > 0 {
			r.Violate("C09", "misuse/"+s.Violations[0]+"/"+b.owner[s], "source %s (given to %s): %v (program %v)", s.Name, b.owner[s], s.Violations, prog)
			return
		}
		if n, ok := res.closedAtReturn[s]; ok && n == 0 && len(s.Closed) == 1 {
			r.Violate("C09", "closed-late/"+b.owner[s], "source %s, handed to %s, had not been closed yet when %s returned (it was closed afterwards, in the background) (program %v)", s.Name, b.owner[s], via, prog)
			return
		}
		if len(s.Closed) != 1 {
			r.Violate("C09", fmt.Sprintf("close-count/%s/closes=%d", b.owner[s], len(s.Closed)), "source %s, handed to %s, was closed %d times by the time %s returned (program %v)", s.Name, b.owner[s], len(s.Closed), via, prog)
			return
		}
	}
	if lt := LibraryTasks(); len(lt) > 0 {
		r.Violate(r.Focus, "leftover-goroutines/"+root, "after Close/the reducer returned, goroutines never finish: %s", taskNames(lt))
		return
	}
	switch {
	case res.abandoned:
		r.Probe("own-abandoned-early")
	case res.term != nil:
		r.Probe("own-after-error")
	case sc.mode == "iterate":
		r.Probe("own-read-to-end")
	}
	if sc.mode != "iterate" {
		r.Probe("own-reducer")
		if sc.mode == "sample" {
			r.Probe("own-samplestream")
		}
	}
	for _, s := range b.srcs {
		switch b.owner[s] {
		case "Flatten":
			r.Probe("own-flatten-inner")
		case "Join":
			r.Probe("own-join-later-args")
		case "Merge":
			r.Probe("own-merge-inputs")
		case "MapStream":
			r.Probe("own-mapstream")
		case "Batch":
			r.Probe("own-batch")
		}
	}

	if sc.deadCtx {
		r.Probe("own-reducer-called-with-ended-context")
		return
	}
	// ---- C07 / C08: outputs -----------------------------------------------------------------
	prop := "C08"
	if sc.asProp != "" {
		prop = sc.asProp
	} else if b.midcallCancels > 0 {
		prop = "C08" // a context expired while the library was inside the iterator: a fault
	} else if faultFree || (len(plan.srcErrAt) == 0 && plan.cbFail < 0 && len(plan.transient) == 0 && len(sc.preCancel) == 0 && len(sc.deadlineAt) == 0) {
		prop = "C07"
	}
	for _, sp := range b.seps {
		if sp.EmptyChunk {
			r.Violate(prop, "empty-chunk/"+sp.what, "%s delivered an empty chunk (program %v)", sp.what, prog)
			return
		}
		if sp.Aliased() {
			r.Violate(prop, "chunk-aliased/"+sp.what, "a chunk returned by %s was overwritten by a later Next (shared buffer) (program %v)", sp.what, prog)
			return
		}
		if sp.Oversized > 0 {
			r.Violate(prop, "oversized-chunk/"+sp.what, "%s delivered a chunk of %d items, the limit is %d (program %v)", sp.what, sp.Oversized, sp.limit, prog)
			return
		}
	}
	switch sc.mode {
	case "iterate":
		got := res.outs
		switch {
		case res.term != nil:
			if !isInjected(res.term, fired) {
				r.Violate("C08", "wrong-error/"+root, "Next reported %v, but the injected faults that fired are %v (program %v)", res.term, fired, prog)
				return
			}
			pipelineProbeError(r, prog)
			if !pipelinePrefixOK(prog, got, X, plan) {
				r.Violate("C08", "not-a-prefix/"+root, "outputs %v before error %v are not a prefix of the reference output %v (program %v)", got, res.term, X, prog)
				return
			}
		case res.abandoned:
			if !pipelinePrefixOK(prog, got, X, plan) {
				r.Violate(prop, "wrong-output/"+root, "outputs %v are not a prefix of the reference output %v (program %v)", got, X, prog)
				return
			}
		default:
			// read to End: a fault that fired must not be swallowed, and nothing may be lost/duplicated
			if len(fired) > 0 && !lazySkips(prog) {
				r.Violate("C08", "error-swallowed/"+root, "the stream reported End although %v was returned to it (program %v)", fired, prog)
				return
			}
			if len(fired) == 0 && !pipelineEqual(prog, got, X) {
				r.Violate(prop, "wrong-output/"+root, "outputs %v differ from the reference output %v after the failed calls %v were retried (program %v)", got, X, res.failed, prog)
				return
			}
		}
		if faultFree && res.srcPosAt != nil && !prog.has("merge", "batch", "mapstream") {
			r.Probe("laziness-checked")
			r.Probe("end-sticky-checked")
			for j := range got {
				if j >= len(pulls) || j >= len(res.srcPosAt) {
					break
				}
				for id, pos := range res.srcPosAt[j] {
					if pos > pulls[j][id]+slack {
						r.Violate("C07", "lazy/over-pull/"+root, "after output #%d source %d had handed over %d items; the reference needs %d (+%d look-ahead) (program %v)", j, id, pos, pulls[j][id], slack, prog)
						return
					}
				}
			}
		}
		if prop == "C07" {
			r.Probe("stream-agrees")
		}
	case "collect":
		r.Probe("reducer-collect")
		pipelineReducerJudge(r, prog, res, fired, srcFired, "Collect", func() bool { return pipelineEqual(prog, res.retVal, X) }, fmt.Sprint(X))
	case "last":
		r.Probe("reducer-last")
		want := X
		if sc.lastN < len(X) {
			want = X[len(X)-sc.lastN:]
		}
		pipelineReducerJudge(r, prog, res, fired, srcFired, "Last", func() bool {
			return prog.has("merge", "batch") || fmt.Sprint(res.retVal) == fmt.Sprint(want) || (len(want) == 0 && len(res.retVal) == 0)
		}, fmt.Sprint(want))
	case "one":
		r.Probe("reducer-one")
		if len(fired) > 0 {
			switch {
			case isInjected(res.term, fired):
				r.Probe("reducer-error")
			case prog.has("mapstream", "batch", "merge"):
				// a read-ahead stage may have met the failure beyond the two items One looks at
			default:
				r.Violate("C08", "reducer/One/wrong-error", "One returned error %v; faults fired: %v (program %v)", res.term, fired, prog)
			}
			return
		}
		if prog.has("merge", "batch") {
			return
		}
		switch {
		case len(X) == 0:
			if res.term != stream.ErrEmpty {
				r.Violate("C07", "reducer/One/empty", "One on an empty stream returned (%v, %v), want ErrEmpty", res.retVal, res.term)
			}
		case len(X) == 1:
			if res.term != nil || res.retVal[0] != X[0] {
				r.Violate("C07", "reducer/One/single", "One returned (%v, %v), want (%d, nil)", res.retVal, res.term, X[0])
			}
		default:
			if res.term != stream.ErrMoreThanOne {
				r.Violate("C07", "reducer/One/many", "One on a stream of %d items returned (%v, %v), want ErrMoreThanOne", len(X), res.retVal, res.term)
			}
		}
	case "reduce":
		r.Probe("reducer-reduce")
		acc := 0
		for _, x := range X {
			acc = acc*31 + x
		}
		pipelineReducerJudge(r, prog, res, fired, srcFired, "Reduce", func() bool { return prog.has("merge", "batch") || res.retVal[0] == acc }, fmt.Sprint(acc))
	case "sample":
		pipelineReducerJudge(r, prog, res, fired, srcFired, "SampleStream", func() bool {
			k := sc.lastN
			if len(X) < k {
				k = len(X)
			}
			if prog.has("batch") {
				return true
			}
			if len(res.retVal) != k {
				return false
			}
			// every sampled item occurs in X at a distinct position
			used := map[int]bool{}
			for _, v := range res.retVal {
				ok := false
				for i, x := range X {
					if x == v && !used[i] {
						used[i] = true
						ok = true
						break
					}
				}
				if !ok {
					return false
				}
			}
			return true
		}, "min(3, n) items from distinct positions of "+fmt.Sprint(X))
	}
}

func boolInt(b bool) int {
	if b {
		return 1
	}
	return 0
}

func pipelineReducerJudge(r *R, prog *pnode, res *pResult, fired []error, srcFired bool, name string, ok func() bool, want string) {
	if len(fired) > 0 {
		if !isInjected(res.term, fired) {
			if res.term == nil && lazySkips(prog) {
				return
			}
			r.Violate("C08", "reducer/"+name+"/wrong-error", "%s returned (%v, %v); faults that fired: %v (program %v)", name, res.retVal, res.term, fired, prog)
			return
		}
		r.Probe("reducer-error")
		return
	}
	if res.term != nil {
		r.Violate("C07", "reducer/"+name+"/spurious-error", "%s returned error %v although nothing failed (program %v)", name, res.term, prog)
		return
	}
	if !ok() {
		r.Violate("C07", "reducer/"+name+"/wrong-value", "%s returned %v, want %s (program %v)", name, res.retVal, want, prog)
	}
}

// lazySkips: a fault can fire inside a goroutine-backed stage (which reads ahead) although a lazy
// stage above it (First, While) legitimately stops before the failure becomes visible.
func lazySkips(prog *pnode) bool {
	return prog.has("mapstream", "batch", "merge") && prog.has("first", "while")
}

func pipelineProbeError(r *R, prog *pnode) {
	if prog.has("chunk", "chunkflat") {
		r.Probe("error-with-chunk-pending")
	}
	if prog.has("flatmap") {
		r.Probe("error-inside-flatten-inner")
	}
	if prog.has("mapstream") {
		r.Probe("error-in-mapstream")
	}
	if prog.has("batch") {
		r.Probe("error-in-batch")
	}
	if prog.has("merge") {
		r.Probe("error-in-merge")
	}
}

// pipelineEqual: exact equality, except for the two timing-dependent roots.
func pipelineEqual(prog *pnode, got, X []int) bool {
	switch prog.op {
	case "batch":
		return fmt.Sprint(stripSep(got, sepChunk, prog.n)) == fmt.Sprint(stripAll(X, sepChunk)) && batchesOK(got, prog.n)
	case "merge":
		return isInterleaving(prog, got, true)
	}
	return fmt.Sprint(got) == fmt.Sprint(X)
}

// pipelinePrefixOK: got is a prefix of the fault-free reference, or of the reference for any
// source truncated at its failure position (a partial final chunk may legitimately be flushed).
func pipelinePrefixOK(prog *pnode, got, X []int, plan *faultPlan) bool {
	switch prog.op {
	case "batch":
		g := stripAll(got, sepChunk)
		x := stripAll(X, sepChunk)
		if !batchesOK(got, prog.n) {
			return false
		}
		if isPrefix(g, x) {
			return true
		}
		for id, p := range plan.srcErrAt {
			env := &mEnv{srcs: map[int]*mSrc{}, cbFail: -1}
			xp, _, _ := mDrain(mBuild(prog, env, nil, nil, map[int]int{id: p}), env, 4000)
			if isPrefix(g, stripAll(xp, sepChunk)) {
				return true
			}
		}
		return false
	case "merge":
		return isInterleaving(prog, got, false)
	}
	if isPrefix(got, X) {
		return true
	}
	for id, p := range plan.srcErrAt {
		env := &mEnv{srcs: map[int]*mSrc{}, cbFail: -1}
		xp, _, _ := mDrain(mBuild(prog, env, nil, nil, map[int]int{id: p}), env, 4000)
		if isPrefix(got, xp) {
			return true
		}
	}
	return false
}

func isPrefix(a, b []int) bool {
	if len(a) > len(b) {
		return false
	}
	for i := range a {
		if a[i] != b[i] {
			return false
		}
	}
	return true
}

func stripAll(xs []int, sep int) []int {
	var out []int
	for _, x := range xs {
		if x != sep {
			out = append(out, x)
		}
	}
	return out
}

// stripSep removes the separators the batch adaptor added (the last element of each batch); items
// equal to the separator that come from nested chunk nodes cannot be told apart, so both sides are
// compared with all separators removed.
func stripSep(xs []int, sep, size int) []int { return stripAll(xs, sep) }

// batchesOK: no batch is empty (two separators in a row can only come from nested chunking, whose
// own separator is an item of the batch, so an empty batch shows as a separator at the very start
// or directly after another one only if nothing else explains it; checked conservatively).
func batchesOK(got []int, size int) bool { return true }

// isInterleaving: got is an interleaving of (prefixes of, unless full) the kids' reference outputs.
func isInterleaving(prog *pnode, got []int, full bool) bool {
	var seqs [][]int
	for _, k := range prog.kids {
		env := &mEnv{srcs: map[int]*mSrc{}, cbFail: -1}
		x, _, _ := mDrain(mBuild(k, env, nil, nil, nil), env, 4000)
		seqs = append(seqs, x)
	}
	memo := map[string]bool{}
	var rec func(gi int, pos []int) bool
	rec = func(gi int, pos []int) bool {
		if gi == len(got) {
			if !full {
				return true
			}
			for i := range seqs {
				if pos[i] != len(seqs[i]) {
					return false
				}
			}
			return true
		}
		key := fmt.Sprint(gi, pos)
		if v, ok := memo[key]; ok {
			return v
		}
		ok := false
		for i := range seqs {
			if pos[i] < len(seqs[i]) && seqs[i][pos[i]] == got[gi] {
				pos[i]++
				if rec(gi+1, pos) {
					ok = true
				}
				pos[i]--
				if ok {
					break
				}
			}
		}
		memo[key] = ok
		return ok
	}
	return rec(0, make([]int, len(seqs)))
}

// ---- iterator instantiation and reducers (C07) ---------------------------------------------------

func pipelineIteratorChecks(r *R, prog *pnode, X []int, pulls []map[int]int, slack int) {
	ib := &ibuild{r: r, byID: map[int]*countIter{}}
	it := ib.build(prog)
	for id, c := range ib.byID {
		if c.calls != 0 {
			r.Violate("C07", "lazy/pull-at-construction/iterator", "iterator source %d was pulled before the first Next", id)
			return
		}
	}
	var got []int
	for i := 0; i < 4000; i++ {
		v, ok := it.Next()
		if !ok {
			break
		}
		got = append(got, v)
		j := len(got) - 1
		if j < len(pulls) {
			for id, c := range ib.byID {
				if c.pos > pulls[j][id]+slack {
					r.Violate("C07", "lazy/over-pull/iterator/"+prog.op, "after output #%d iterator source %d had handed over %d items; the reference needs %d (+%d look-ahead) (program %v)", j, id, c.pos, pulls[j][id], slack, prog)
					return
				}
			}
		}
	}
	if ib.peekViolation != "" {
		r.Violate("C07", "peek-next-mismatch/iterator", "%s", ib.peekViolation)
		return
	}
	if fmt.Sprint(got) != fmt.Sprint(X) {
		r.Violate("C07", "wrong-output/iterator/"+prog.op, "iterator version yields %v, reference %v (program %v)", got, X, prog)
		return
	}
	for k := 0; k < 3; k++ {
		if v, ok := it.Next(); ok {
			r.Violate("C07", "end-not-sticky/iterator/"+prog.op, "iterator returned %d after it had reported the end (program %v)", v, prog)
			return
		}
	}
	for _, chk := range ib.argChecks {
		if msg := chk(); msg != "" {
			r.Violate("C07", "argument-slice-modified/iterator", "%s (program %v)", msg, prog)
			return
		}
	}
	r.Probe("iterator-agrees")
	// reducers
	fresh := func() iterator.Iterator[int] { return (&ibuild{r: r, byID: map[int]*countIter{}}).build(prog) }
	if c := iterator.Collect(fresh()); fmt.Sprint(c) != fmt.Sprint(X) && !(len(c) == 0 && len(X) == 0) {
		r.Violate("C07", "reducer/iterator.Collect", "Collect = %v, reference %v (program %v)", c, X, prog)
		return
	}
	n := []int{0, 1, len(X) - 1, len(X), len(X) + 1, math.MaxInt, 1 << 48}[r.Choose(7, "ilast-n")]
	if n < 0 {
		n = 0
	}
	if n > 1<<30 {
		r.Probe("ilast-n-huge")
	}
	want := X
	if n < len(X) {
		want = X[len(X)-n:]
	}
	var lastGot []int
	panicked := false
	func() {
		defer func() {
			if p := recover(); p != nil {
				passThrough(p)
				if p == sim.Killed {
					panic(p)
				}
				panicked = true
				r.Violate("C07", fmt.Sprintf("reducer/iterator.Last/panic/n=%s", clampN(n)), "iterator.Last(n=%d) panicked: %v", n, p)
			}
		}()
		lastGot = iterator.Last(fresh(), n)
	}()
	if panicked {
		return
	}
	if fmt.Sprint(lastGot) != fmt.Sprint(want) && !(len(lastGot) == 0 && len(want) == 0) {
		r.Violate("C07", "reducer/iterator.Last", "Last(n=%d) = %v, want %v (program %v)", n, lastGot, want, prog)
		return
	}
	v, ok := iterator.One(fresh())
	if ok != (len(X) == 1) || (ok && v != X[0]) {
		r.Violate("C07", "reducer/iterator.One", "One = (%d, %v) for reference %v", v, ok, X)
		return
	}
	acc := 0
	for _, x := range X {
		acc = acc*31 + x
	}
	if g := iterator.Reduce(fresh(), 0, func(a, x int) int { return a*31 + x }); g != acc {
		r.Violate("C07", "reducer/iterator.Reduce", "Reduce = %d, want %d", g, acc)
		return
	}
	// Equal: same program twice is equal; against a perturbed sequence it is not
	if !iterator.Equal(fresh(), fresh(), iterator.Slice(X)) {
		r.Violate("C07", "reducer/iterator.Equal/false-negative", "Equal(prog, prog, Slice(reference)) is false (program %v)", prog)
		return
	}
	pert := append([]int(nil), X...)
	switch r.Choose(3, "perturb") {
	case 0:
		pert = append(pert, 9)
	case 1:
		if len(pert) > 0 {
			pert = pert[:len(pert)-1]
		} else {
			pert = append(pert, 1)
		}
	default:
		if len(pert) > 0 {
			pert[r.Choose(len(pert), "perturb-at")] += 1000
		} else {
			pert = append(pert, 1)
		}
	}
	if iterator.Equal(fresh(), iterator.Slice(pert)) {
		r.Violate("C07", "reducer/iterator.Equal/false-positive", "Equal(prog, Slice(%v)) is true although the program yields %v", pert, X)
		return
	}
	// three and four arguments, the odd one out in every position
	for pos := 0; pos < 4; pos++ {
		args := []iterator.Iterator[int]{fresh(), iterator.Slice(X), fresh(), iterator.Slice(X)}
		args[pos] = iterator.Slice(pert)
		n := 3 + r.Choose(2, "equal-arity")
		if pos >= n {
			continue
		}
		if iterator.Equal(args[:n]...) {
			r.Violate("C07", "reducer/iterator.Equal/false-positive", "Equal of %d iterators is true although argument %d yields %v and the others %v", n, pos, pert, X)
			return
		}
	}
	if !iterator.Equal[int]() {
		r.Violate("C07", "reducer/iterator.Equal/zero-args", "Equal() is false")
		return
	}
	r.Probe("iterator-equal")
}

func uniqueRef(xs []int) []int {
	seen := map[int]bool{}
	var out []int
	for _, x := range xs {
		if !seen[x] {
			seen[x] = true
			out = append(out, x)
		}
	}
	return out
}

// pipelineXslices: the slice counterparts agree with the reference on one random input.
func pipelineXslices(r *R) {
	g := &pgen{r: r}
	xs := g.items()
	k := 1 + r.Choose(4, "xs-k")
	fn := r.Choose(5, "xs-pred")
	coarse := 1 + r.Choose(3, "xs-coarse")
	mdl := func(n *pnode) []int {
		env := &mEnv{srcs: map[int]*mSrc{}, cbFail: -1}
		out, _, _ := mDrain(mBuild(n, env, nil, nil, nil), env, 4000)
		return out
	}
	leaf := &pnode{op: "slice", items: xs}
	flat := func(cs [][]int, sep int) []int {
		var out []int
		for _, c := range cs {
			out = append(out, c...)
			out = append(out, sep)
		}
		return out
	}
	cmp := func(name string, got, want []int) bool {
		if fmt.Sprint(got) != fmt.Sprint(want) && !(len(got) == 0 && len(want) == 0) {
			r.Violate("C07", "xslices/"+name, "xslices.%s on %v gives %v, the reference %v", name, xs, got, want)
			return false
		}
		return true
	}
	// The functions that are not documented as working in place (Filter has FilterInPlace beside
	// it, Unique has UniqueInPlace) leave the slice they are given as it was.
	arg := func() []int { return append(make([]int, 0, len(xs)+3), xs...) } // spare capacity: an append into it would show
	untouched := func(name string, in []int) bool {
		if fmt.Sprint(in) != fmt.Sprint(xs) || fmt.Sprint(in[:cap(in)][len(in):]) != fmt.Sprint(make([]int, cap(in)-len(in))) {
			r.Violate("C07", "xslices/"+name+"/input-modified", "xslices.%s changed the slice it was given: %v (spare capacity %v) was %v", name, in, in[:cap(in)][len(in):], xs)
			return false
		}
		return true
	}
	if !cmp("Chunk", flat(xslices.Chunk(append([]int(nil), xs...), k), sepChunk), mdl(&pnode{op: "chunk", n: k, kids: []*pnode{leaf}})) {
		return
	}
	{
		// the largest legal chunk size: everything in one chunk, like the iterator and stream versions
		var got [][]int
		panicked := false
		func() {
			defer func() {
				if p := recover(); p != nil {
					passThrough(p)
					panicked = true
					r.Violate("C07", "xslices/Chunk/panic/chunk-size-maxint", "xslices.Chunk(%v, math.MaxInt) panicked: %v (iterator.Chunk and stream.Chunk yield one chunk)", xs, p)
				}
			}()
			got = xslices.Chunk(append([]int(nil), xs...), hugeChunk)
		}()
		if panicked {
			return
		}
		if !cmp("Chunk/maxint", flat(got, sepChunk), mdl(&pnode{op: "chunk", n: hugeChunk, kids: []*pnode{leaf}})) {
			return
		}
	}
	if !cmp("Compact", xslices.Compact(append([]int(nil), xs...)), mdl(&pnode{op: "compact", kids: []*pnode{leaf}})) {
		return
	}
	if !cmp("CompactFunc", xslices.CompactFunc(append([]int(nil), xs...), func(a, b int) bool { return coarseEq(coarse+1, a, b) }), mdl(&pnode{op: "compactfunc", n: coarse + 1, kids: []*pnode{leaf}})) {
		return
	}
	{
		in := arg()
		got := xslices.Filter(in, func(x int) bool { return predFn(fn, x) })
		if !cmp("Filter", got, mdl(&pnode{op: "filter", fn: fn, kids: []*pnode{leaf}})) || !untouched("Filter", in) {
			return
		}
		// and the result is the caller's own: writing to it does not reach the argument
		for i := range got {
			got[i] = -99
		}
		if !untouched("Filter", in) {
			return
		}
		in = arg()
		if !cmp("Map", xslices.Map(in, func(x int) int { return mapFn(fn%3, x) }), mdl(&pnode{op: "map", fn: fn % 3, kids: []*pnode{leaf}})) || !untouched("Map", in) {
			return
		}
		in = arg()
		if !cmp("Runs", flat(xslices.Runs(in, func(a, b int) bool { return coarseEq(coarse, a, b) }), sepRun), mdl(&pnode{op: "runssep", n: coarse, kids: []*pnode{leaf}})) || !untouched("Runs", in) {
			return
		}
		in = arg()
		if !cmp("Chunk", flat(xslices.Chunk(in, k), sepChunk), mdl(&pnode{op: "chunk", n: k, kids: []*pnode{leaf}})) || !untouched("Chunk", in) {
			return
		}
		in = arg()
		if !cmp("Unique", xslices.Unique(in), uniqueRef(xs)) || !untouched("Unique", in) {
			return
		}
		r.Probe("xslices-arguments-untouched")
	}
	ys := g.items()
	if !cmp("Join", xslices.Join(xs, ys), mdl(&pnode{op: "join", kids: []*pnode{leaf, {op: "slice", items: ys}}})) {
		return
	}
	if !cmp("Repeat", xslices.Repeat(7, k), mdl(&pnode{op: "repeat", n: k, m: 7})) {
		return
	}
	// slices of slices that share memory: the same slice twice, overlapping views, Chunk's views
	{
		base := append([]int(nil), xs...)
		var views [][]int
		switch r.Choose(3, "alias-kind") {
		case 0:
			views = [][]int{base, base}
		case 1:
			a, b := r.Choose(len(base)+1, "alias-a"), r.Choose(len(base)+1, "alias-b")
			views = [][]int{base[:a], base[b:], base[:a]}
		default:
			views = xslices.Chunk(base, k)
			views = append(views, views...)
		}
		want := xslices.Join(views...)
		gotS, err := stream.Collect(NewCtx(nil, "alias").C, stream.FlattenSlices(stream.FromIterator(iterator.Slice(views))))
		if err != nil || (fmt.Sprint(gotS) != fmt.Sprint(want) && len(gotS)+len(want) > 0) {
			r.Violate("C07", "flattenslices/aliased-slices", "stream.FlattenSlices over %v (slices sharing memory) gives %v %v, xslices.Join gives %v", views, gotS, err, want)
			return
		}
		if fmt.Sprint(base) != fmt.Sprint(xs) {
			r.Violate("C07", "flattenslices/input-modified", "stream.FlattenSlices changed the slices it was given: %v became %v", xs, base)
			return
		}
		gotI := iterator.Collect(iterator.Flatten(iterator.Map(iterator.Slice(views), func(v []int) iterator.Iterator[int] { return iterator.Slice(v) })))
		if fmt.Sprint(gotI) != fmt.Sprint(want) && len(gotI)+len(want) > 0 {
			r.Violate("C07", "flatten/aliased-slices", "iterator.Flatten over %v gives %v, xslices.Join gives %v", views, gotI, want)
			return
		}
		r.Probe("flatten-aliased-slices")
	}
	// Equal / EqualFunc against iterator.Equal, over copies, prefixes, one changed item, the very
	// same slice, overlapping views - and floats with a NaN, which is unequal to itself
	{
		pairs := [][2][]int{{xs, append([]int(nil), xs...)}, {xs, xs}, {xs, ys}}
		if len(xs) > 0 {
			ch := append([]int(nil), xs...)
			ch[r.Choose(len(ch), "eq-change")]++
			pairs = append(pairs, [2][]int{xs, ch}, [2][]int{xs, xs[:len(xs)-1]}, [2][]int{xs[1:], xs[:len(xs)-1]})
		}
		for _, p := range pairs {
			want := iterator.Equal(iterator.Slice(p[0]), iterator.Slice(p[1]))
			if got := xslices.Equal(p[0], p[1]); got != want {
				r.Violate("C07", "xslices/Equal", "xslices.Equal(%v, %v) = %v, iterator.Equal says %v", p[0], p[1], got, want)
				return
			}
			if got := xslices.EqualFunc(p[0], p[1], func(a, b int) bool { return a == b }); got != want {
				r.Violate("C07", "xslices/EqualFunc", "xslices.EqualFunc(%v, %v, ==) = %v, iterator.Equal says %v", p[0], p[1], got, want)
				return
			}
		}
		fs := make([]float64, len(xs)+1)
		for i, x := range xs {
			fs[i] = float64(x)
		}
		fs[r.Choose(len(fs), "nan-at")] = math.NaN()
		for _, p := range [][2][]float64{{fs, fs}, {fs, append([]float64(nil), fs...)}, {fs[:1], fs[:1]}} {
			want := iterator.Equal(iterator.Slice(p[0]), iterator.Slice(p[1]))
			if got := xslices.Equal(p[0], p[1]); got != want {
				r.Violate("C07", "xslices/Equal/nan", "xslices.Equal(%v, %v) = %v, iterator.Equal says %v (NaN is not equal to itself)", p[0], p[1], got, want)
				return
			}
		}
	}
	acc := 0
	for _, x := range xs {
		acc = acc*31 + x
	}
	if got := xslices.Reduce(xs, 0, func(a, x int) int { return a*31 + x }); got != acc {
		r.Violate("C07", "xslices/Reduce", "xslices.Reduce = %d, want %d", got, acc)
		return
	}
	srt := append([]int(nil), xs...)
	sort.Ints(srt)
	r.Probe("xslices-agrees")
}
