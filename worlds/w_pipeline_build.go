package worlds

import (
	"math"
	"fmt"

	"github.com/bradenaw/juniper/iterator"
	"github.com/bradenaw/juniper/parallel"
	"github.com/bradenaw/juniper/stream"

	"verifsim/context"
	"verifsim/sim"
	"verifsim/time"
)

// Builders that instantiate a program over juniper's stream and iterator packages, plus the small
// harness adaptors that turn Stream[[]int] / Stream[Stream[int]] / Peekable into a Stream[int]
// whose output the model can predict (separators mark chunk and run boundaries).

type faultPlan struct {
	srcErrAt   map[int]int   // src id -> position of a permanent error
	srcErr     map[int]error // src id -> the error
	transient  map[int]map[int]error
	delay      map[int]map[int]time.Duration
	cbFail     int // >= 0: this callback call fails
	cbErr      error
	chanSlow   map[int]int // live-fed Chan leaf id -> position before which its feeder pauses 70 ms
}

func newFaultPlan() *faultPlan {
	return &faultPlan{srcErrAt: map[int]int{}, srcErr: map[int]error{}, transient: map[int]map[int]error{}, delay: map[int]map[int]time.Duration{}, cbFail: -1, chanSlow: map[int]int{}}
}

type sbuild struct {
	argChecks []func() string // the caller's own slices must be as they were (run after the execution)
	r       *R
	plan    *faultPlan
	srcs    []*Src          // every instrumented source handed to the library, in creation order
	owner   map[*Src]string // the library construct that received the source
	byID    map[int]*Src
	cbCalls int
	cbFired bool
	bg      *Ctx // context for goroutine-backed constructors
	peekViolation string
	seps    []*sepChunks
	spy     *rootSpy
	spies   []*closeSpy
	depth   int
	// perCallCtx: the consumer makes every Next with a context of its own (curCtx), which a
	// cancellingIter may cancel from inside the library's call into the iterator
	perCallCtx     bool
	curCtx         *Ctx
	midcallCancels int
}

func (b *sbuild) cb() error {
	sim.NoteProgress()
	k := b.cbCalls
	b.cbCalls++
	if b.plan.cbFail >= 0 && k == b.plan.cbFail {
		b.cbFired = true
		b.r.Fault("cb_error")
		return b.plan.cbErr
	}
	return nil
}

func (b *sbuild) newSrc(name string, items []int, owner string) *Src {
	s := NewSrc(b.r, name, items)
	b.srcs = append(b.srcs, s)
	b.owner[s] = owner
	return s
}

func (b *sbuild) build(n *pnode, owner string) stream.Stream[int] {
	// every stream handed to a library construct goes through a transparent spy, so that the
	// construct that fails to close what it was given can be named
	kid := func(i int, as string) stream.Stream[int] {
		b.depth++
		inner := b.build(n.kids[i], as)
		b.depth--
		if _, isSrc := inner.(*Src); isSrc {
			return inner // sources log for themselves
		}
		sp := &closeSpy{inner: inner, owner: as, what: n.kids[i].op, depth: b.depth + 1}
		b.spies = append(b.spies, sp)
		return sp
	}
	switch n.op {
	case "src":
		s := b.newSrc(fmt.Sprintf("src%d", n.id), n.items, owner)
		if p, ok := b.plan.srcErrAt[n.id]; ok {
			s.ErrAt, s.Err = p, b.plan.srcErr[n.id]
		}
		if t, ok := b.plan.transient[n.id]; ok {
			s.Transient = map[int]error{}
			for k, v := range t {
				s.Transient[k] = v
			}
		}
		if d, ok := b.plan.delay[n.id]; ok {
			s.Delay = map[int]time.Duration{}
			for k, v := range d {
				s.Delay[k] = v
			}
		}
		b.byID[n.id] = s
		return s
	case "slice":
		return stream.FromIterator(iterator.Slice(n.items))
	case "ictx":
		b.perCallCtx = true
		return stream.FromIterator(&cancellingIter{b: b, items: n.items, at: n.m})
	case "counter":
		return stream.FromIterator(iterator.Counter(n.n))
	case "repeat":
		return stream.FromIterator(iterator.Repeat(n.m, n.n))
	case "empty":
		return stream.Empty[int]()
	case "chan":
		if n.m == 1 {
			// fed by a producer while the consumer runs: Next really waits in its select
			c := make(chan int)
			items := n.items
			slowAt, slow := b.plan.chanSlow[n.id]
			sim.GoNamed("chan-feeder", func() {
				for i, x := range items {
					if slow && i == slowAt {
						sim.Sleep(70*time.Millisecond, "chan-feeder-slow")
					}
					sim.Send(c, x, "chan-feeder-send")
				}
				if slow && slowAt >= len(items) {
					sim.Sleep(70*time.Millisecond, "chan-feeder-slow")
				}
				sim.Close(c, "chan-feeder-close")
			})
			b.r.Probe("chan-leaf-fed-live")
			return stream.Chan[int](c)
		}
		c := make(chan int, len(n.items)+1)
		for _, x := range n.items {
			c <- x
		}
		close(c)
		return stream.Chan[int](c)
	case "filter":
		return stream.Filter(kid(0, "Filter"), func(ctx context.Context, x int) (bool, error) {
			if err := b.cb(); err != nil {
				return false, err
			}
			return predFn(n.fn, x), nil
		})
	case "map":
		return stream.Map(kid(0, "Map"), func(ctx context.Context, x int) (int, error) {
			if err := b.cb(); err != nil {
				return 0, err
			}
			return mapFn(n.fn, x), nil
		})
	case "first":
		return stream.First(kid(0, "First"), n.n)
	case "while":
		pred := whilePred(n)
		return stream.While(kid(0, "While"), func(ctx context.Context, x int) (bool, error) {
			if err := b.cb(); err != nil {
				return false, err
			}
			return pred(x), nil
		})
	case "compact":
		return stream.Compact(kid(0, "Compact"))
	case "compactfunc":
		return stream.CompactFunc(kid(0, "CompactFunc"), func(a, c int) bool { return coarseEq(n.n, a, c) })
	case "peek":
		return &peekAdaptor{b: b, inner: stream.WithPeek(kid(0, "WithPeek")), peeks: n.peeks}
	case "chunk":
		sc := &sepChunks{inner: guardS[[]int](b.r, n.n, stream.Chunk(kid(0, "Chunk"), n.n)), limit: n.n, what: "Chunk"}
		b.seps = append(b.seps, sc)
		return sc
	case "chunkflat":
		return stream.FlattenSlices(guardS[[]int](b.r, n.n, stream.Chunk(kid(0, "Chunk"), n.n)))
	case "runssep":
		return &sepRuns{inner: stream.Runs(kid(0, "Runs"), func(a, c int) bool { return coarseEq(n.n, a, c) })}
	case "runsflat":
		return stream.Flatten(stream.Runs(kid(0, "Runs"), func(a, c int) bool { return coarseEq(n.n, a, c) }))
	case "runshead":
		return &sepRuns{inner: stream.Runs(kid(0, "Runs"), func(a, c int) bool { return coarseEq(n.n, a, c) }), take: n.m, limited: true}
	case "flatmap":
		cnt := 0
		return stream.Flatten(stream.Map(kid(0, "Map"), func(ctx context.Context, x int) (stream.Stream[int], error) {
			if err := b.cb(); err != nil {
				return nil, err
			}
			cnt++
			return b.newSrc(fmt.Sprintf("inner%d.%d", x, cnt), flatItems(x, n.n), "Flatten"), nil
		}))
	case "join":
		kids := make([]stream.Stream[int], len(n.kids))
		for i := range n.kids {
			kids[i] = kid(i, "Join")
		}
		orig := append([]stream.Stream[int](nil), kids...)
		b.argChecks = append(b.argChecks, func() string { return sameElems("stream.Join", len(kids), func(i int) bool { return kids[i] == orig[i] }) })
		return stream.Join(kids...)
	case "mapstream":
		return parallel.MapStream(b.bg.C, kid(0, "MapStream"), n.n, n.m, func(ctx context.Context, x int) (int, error) {
			sim.Yield("mapstream-f")
			if err := b.cb(); err != nil {
				return 0, err
			}
			return mapFn(n.fn, x), nil
		})
	case "batch":
		sc := &sepChunks{inner: stream.Batch(kid(0, "Batch"), time.Duration(n.m)*time.Millisecond, n.n), limit: n.n, what: "Batch"}
		b.seps = append(b.seps, sc)
		return sc
	case "merge":
		kids := make([]stream.Stream[int], len(n.kids))
		for i := range n.kids {
			kids[i] = kid(i, "Merge")
		}
		return stream.Merge(kids...)
	}
	panic("build: unknown op " + n.op)
}

// cancellingIter is a plain iterator that, at one position, cancels the context of the consumer's
// Next call that is in progress (the context expires while the library is inside iter.Next).
type cancellingIter struct {
	b     *sbuild
	items []int
	pos   int
	at    int
	done  bool
}

func (c *cancellingIter) Next() (int, bool) {
	if c.pos == c.at && !c.done && c.b.curCtx != nil {
		c.done = true
		c.b.r.Fault("ctx_cancel_midcall")
		c.b.midcallCancels++
		c.b.curCtx.Cancel()
	}
	if c.pos >= len(c.items) {
		return 0, false
	}
	v := c.items[c.pos]
	c.pos++
	return v, true
}

// sepChunks flattens a stream of chunks, emitting sepChunk after each chunk.
type sepChunks struct {
	inner      stream.Stream[[]int]
	buf        []int
	limit      int
	what       string
	EmptyChunk bool
	Oversized  int
	kept       [][]int // the slices exactly as returned, and copies taken at that moment:
	copies     [][]int // a later chunk must not overwrite an earlier one (no shared buffer)
}

// Aliased reports whether a chunk handed out earlier was modified afterwards.
func (s *sepChunks) Aliased() bool {
	for i := range s.kept {
		if fmt.Sprint(s.kept[i]) != fmt.Sprint(s.copies[i]) {
			return true
		}
	}
	return false
}

// closeSpy is a transparent wrapper around a stream handed to a library construct.
type closeSpy struct {
	inner          stream.Stream[int]
	owner, what    string
	depth          int
	Closes         int
	NextAfterClose bool
}

func (s *closeSpy) Next(ctx context.Context) (int, error) {
	if s.Closes > 0 {
		s.NextAfterClose = true
	}
	return s.inner.Next(ctx)
}
func (s *closeSpy) Close() {
	if sim.Tearing() {
		return
	}
	s.Closes++
	s.inner.Close()
}

// rootSpy wraps the program's root stream so that the consumer's/reducer's own use of it is visible.
type rootSpy struct {
	inner          stream.Stream[int]
	Closes         int
	NextAfterClose bool
}

func (s *rootSpy) Next(ctx context.Context) (int, error) {
	if s.Closes > 0 {
		s.NextAfterClose = true
	}
	return s.inner.Next(ctx)
}
func (s *rootSpy) Close() {
	s.Closes++
	s.inner.Close()
}

func (s *sepChunks) Next(ctx context.Context) (int, error) {
	for len(s.buf) == 0 {
		c, err := s.inner.Next(ctx)
		if err != nil {
			return 0, err
		}
		if len(c) == 0 {
			s.EmptyChunk = true
		}
		if len(c) > s.limit {
			s.Oversized = len(c)
		}
		s.kept = append(s.kept, c)
		s.copies = append(s.copies, append([]int(nil), c...))
		s.buf = append(append([]int(nil), c...), sepChunk)
	}
	v := s.buf[0]
	s.buf = s.buf[1:]
	return v, nil
}
func (s *sepChunks) Close() { s.inner.Close() }

// sepRuns drains each run, emitting sepRun after it.
type sepRuns struct {
	inner   stream.Stream[stream.Stream[int]]
	cur     stream.Stream[int]
	limited bool // read at most `take` items of every run, then advance the outer stream
	take    int
	taken   int
	calls   int
}

// errRunaway stops a library loop that would never end (a stream that keeps producing for ever):
// the harness adaptors refuse to hand out more than a generous number of items.
var errRunaway = NewErr("harness: output limit exceeded (the stream does not terminate)")

const runawayLimit = 3000

func (s *sepRuns) Next(ctx context.Context) (int, error) {
	s.calls++
	if s.calls > runawayLimit {
		return 0, errRunaway
	}
	for {
		if s.cur == nil {
			c, err := s.inner.Next(ctx)
			if err != nil {
				return 0, err
			}
			s.cur = c
			s.taken = 0
		}
		if s.limited && s.taken >= s.take {
			// stop reading this run; the outer stream skips the rest of it when it is advanced
			s.cur = nil
			return sepRun, nil
		}
		v, err := s.cur.Next(ctx)
		if err == nil {
			s.taken++
		}
		if err == stream.End {
			s.cur.Close()
			s.cur = nil
			return sepRun, nil
		}
		return v, err
	}
}
func (s *sepRuns) Close() {
	if s.cur != nil {
		s.cur.Close()
	}
	s.inner.Close()
}

// peekAdaptor peeks before some Next calls and checks that Next then returns what Peek showed.
type peekAdaptor struct {
	b     *sbuild
	inner stream.Peekable[int]
	peeks []bool
	call  int
}

func (p *peekAdaptor) Next(ctx context.Context) (int, error) {
	doPeek := p.call < len(p.peeks) && p.peeks[p.call]
	p.call++
	if doPeek {
		v, err := p.inner.Peek(ctx)
		if err != nil {
			p.call-- // the same script position is retried after a failed call
			return 0, err
		}
		w, err := p.inner.Next(ctx)
		if err != nil || w != v {
			p.b.peekViolation = fmt.Sprintf("Peek returned %d but the following Next returned (%d, %v)", v, w, err)
		}
		return w, err
	}
	v, err := p.inner.Next(ctx)
	if err != nil {
		p.call--
	}
	return v, err
}
func (p *peekAdaptor) Close() { p.inner.Close() }

// ---- iterator instantiation (C07 only: no faults, no contexts) -----------------------------------

type countIter struct {
	items []int
	pos   int
	calls int
}

func (c *countIter) Next() (int, bool) {
	c.calls++
	if c.pos >= len(c.items) {
		return 0, false
	}
	v := c.items[c.pos]
	c.pos++
	return v, true
}

type ibuild struct {
	argChecks []func() string // the caller's own slices must be as they were (run after the iteration)
	r    *R
	byID map[int]*countIter
	peekViolation string
}

func (b *ibuild) build(n *pnode) iterator.Iterator[int] {
	kid := func(i int) iterator.Iterator[int] { return b.build(n.kids[i]) }
	switch n.op {
	case "src":
		c := &countIter{items: n.items}
		b.byID[n.id] = c
		return c
	case "slice", "ictx":
		return iterator.Slice(n.items)
	case "counter":
		return iterator.Counter(n.n)
	case "repeat":
		return iterator.Repeat(n.m, n.n)
	case "empty":
		return iterator.Empty[int]()
	case "chan":
		c := make(chan int, len(n.items)+1)
		for _, x := range n.items {
			c <- x
		}
		close(c)
		return iterator.Chan[int](c)
	case "filter":
		return iterator.Filter(kid(0), func(x int) bool { return predFn(n.fn, x) })
	case "map":
		return iterator.Map(kid(0), func(x int) int { return mapFn(n.fn, x) })
	case "first":
		return iterator.First(kid(0), n.n)
	case "while":
		return iterator.While(kid(0), whilePred(n))
	case "compact":
		return iterator.Compact(kid(0))
	case "compactfunc":
		return iterator.CompactFunc(kid(0), func(a, c int) bool { return coarseEq(n.n, a, c) })
	case "peek":
		return &ipeekAdaptor{b: b, inner: iterator.WithPeek(kid(0)), peeks: n.peeks}
	case "chunk":
		return &isepChunks{inner: guardI[[]int](b.r, n.n, iterator.Chunk(kid(0), n.n))}
	case "chunkflat":
		return iterator.Flatten(iterator.Map(guardI[[]int](b.r, n.n, iterator.Chunk(kid(0), n.n)), func(c []int) iterator.Iterator[int] { return iterator.Slice(c) }))
	case "runssep":
		return &isepRuns{b: b, inner: iterator.Runs(kid(0), func(a, c int) bool { return coarseEq(n.n, a, c) })}
	case "runsflat":
		return iterator.Flatten(iterator.Runs(kid(0), func(a, c int) bool { return coarseEq(n.n, a, c) }))
	case "runshead":
		return &isepRuns{b: b, inner: iterator.Runs(kid(0), func(a, c int) bool { return coarseEq(n.n, a, c) }), take: n.m, limited: true}
	case "flatmap":
		return iterator.Flatten(iterator.Map(kid(0), func(x int) iterator.Iterator[int] { return iterator.Slice(flatItems(x, n.n)) }))
	case "join":
		kids := make([]iterator.Iterator[int], len(n.kids))
		for i := range n.kids {
			kids[i] = kid(i)
		}
		orig := append([]iterator.Iterator[int](nil), kids...)
		b.argChecks = append(b.argChecks, func() string { return sameElems("iterator.Join", len(kids), func(i int) bool { return kids[i] == orig[i] }) })
		return iterator.Join(kids...)
	}
	panic("ibuild: unknown op " + n.op)
}

type isepChunks struct {
	inner iterator.Iterator[[]int]
	buf   []int
}

func (s *isepChunks) Next() (int, bool) {
	for len(s.buf) == 0 {
		c, ok := s.inner.Next()
		if !ok {
			return 0, false
		}
		s.buf = append(append([]int(nil), c...), sepChunk)
	}
	v := s.buf[0]
	s.buf = s.buf[1:]
	return v, true
}

type isepRuns struct {
	inner   iterator.Iterator[iterator.Iterator[int]]
	cur     iterator.Iterator[int]
	limited bool
	take    int
	taken   int
	calls   int
	Runaway bool
	ended   []iterator.Iterator[int]
	b       *ibuild
}

func (s *isepRuns) Next() (int, bool) {
	s.calls++
	if s.calls > runawayLimit {
		s.Runaway = true
		return 0, false
	}
	for {
		if s.cur == nil {
			c, ok := s.inner.Next()
			// once an inner iterator has reported its end it must keep doing so, also after the
			// outer iterator has moved on (C07: "every later Next reports the end again")
			for _, old := range s.ended {
				if v, again := old.Next(); again {
					s.b.peekViolation = fmt.Sprintf("an inner iterator of Runs yielded %d after it had reported its end", v)
				}
			}
			if !ok {
				return 0, false
			}
			s.cur = c
			s.taken = 0
		}
		if s.limited && s.taken >= s.take {
			s.cur = nil
			return sepRun, true
		}
		v, ok := s.cur.Next()
		if !ok {
			if len(s.ended) < 4 {
				s.ended = append(s.ended, s.cur)
			}
			s.cur = nil
			return sepRun, true
		}
		s.taken++
		return v, true
	}
}

type ipeekAdaptor struct {
	b     *ibuild
	inner iterator.Peekable[int]
	peeks []bool
	call  int
}

func (p *ipeekAdaptor) Next() (int, bool) {
	doPeek := p.call < len(p.peeks) && p.peeks[p.call]
	p.call++
	if doPeek {
		v, ok := p.inner.Peek()
		if !ok {
			return 0, false
		}
		w, ok2 := p.inner.Next()
		if !ok2 || w != v {
			p.b.peekViolation = fmt.Sprintf("Peek returned %d but the following Next returned (%d, %v)", v, w, ok2)
		}
		return w, ok2
	}
	return p.inner.Next()
}


// ---- Chunk with the largest legal chunk size -------------------------------------------------------
//
// A chunk size of math.MaxInt is legal ("everything in one chunk"). A panic inside Chunk's Next for
// that size is reported under a signature of its own (it is a listed known finding, see
// known_findings.json) instead of the generic panic signature.

const hugeChunk = math.MaxInt

type sGuard[T any] struct {
	r     *R
	inner stream.Stream[T]
}

func guardS[T any](r *R, n int, s stream.Stream[T]) stream.Stream[T] {
	if n != hugeChunk {
		return s
	}
	r.Probe("chunk-size-maxint")
	return &sGuard[T]{r: r, inner: s}
}

func (g *sGuard[T]) Next(ctx context.Context) (v T, err error) {
	defer func() {
		if p := recover(); p != nil {
			passThrough(p)
			if p == sim.Killed {
				panic(p)
			}
			g.r.Violate("C07", "chunk/panic/chunk-size-maxint/stream", "stream.Chunk with chunkSize = math.MaxInt panicked in Next: %v", p)
			err = stream.End
		}
	}()
	return g.inner.Next(ctx)
}

func (g *sGuard[T]) Close() { g.inner.Close() }

type iGuard[T any] struct {
	r     *R
	inner iterator.Iterator[T]
}

func guardI[T any](r *R, n int, it iterator.Iterator[T]) iterator.Iterator[T] {
	if n != hugeChunk {
		return it
	}
	return &iGuard[T]{r: r, inner: it}
}

func (g *iGuard[T]) Next() (v T, ok bool) {
	defer func() {
		if p := recover(); p != nil {
			passThrough(p)
			if p == sim.Killed {
				panic(p)
			}
			g.r.Violate("C07", "chunk/panic/chunk-size-maxint/iterator", "iterator.Chunk with chunkSize = math.MaxInt panicked in Next: %v", p)
			ok = false
		}
	}()
	return g.inner.Next()
}


// sameElems: a variadic function was handed the caller's slice; its elements must still be what the
// caller put there (the slice stays the caller's).
func sameElems(what string, n int, same func(i int) bool) (msg string) {
	defer func() {
		if p := recover(); p != nil {
			passThrough(p)
			msg = "" // elements of a type that cannot be compared: no verdict
		}
	}()
	for i := 0; i < n; i++ {
		if !same(i) {
			return fmt.Sprintf("%s changed element %d of the slice it was called with (f(xs...) hands over the caller's own slice)", what, i)
		}
	}
	return ""
}
