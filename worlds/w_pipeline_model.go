package worlds

import (
	"math"
	"errors"
	"fmt"
	"strings"
)

// Program representation, generator and the lazy reference model for the `pipeline` world
// (C07/C08/C09). The model is written independently of juniper: it never imports it.

const (
	sepChunk = -1 // emitted by the harness adaptor after each chunk/batch
	sepRun   = -2 // emitted by the harness adaptor after each run
)

type pnode struct {
	op    string
	kids  []*pnode
	n     int   // parameter: First n, chunk size, repeat count, counter n, flatmap fan-out, eq coarseness, parallelism
	m     int   // second parameter: repeat item, buffer size, batch maxWait (ms)
	fn    int   // predicate / map function id
	items []int // leaves
	id    int   // index among "src" leaves (for fault plans)
	peeks []bool
}

func (n *pnode) String() string {
	var b strings.Builder
	b.WriteString(n.op)
	switch n.op {
	case "src", "slice":
		fmt.Fprintf(&b, "%v", n.items)
	case "chan":
		fmt.Fprintf(&b, "%v", n.items)
		if n.m == 1 {
			b.WriteString("[fed live]")
		}
	case "ictx":
		fmt.Fprintf(&b, "%v[cancels the call's context at %d]", n.items, n.m)
	case "counter", "first", "chunk", "chunkflat", "flatmap":
		fmt.Fprintf(&b, "[%d]", n.n)
	case "repeat":
		fmt.Fprintf(&b, "[%d x%d]", n.m, n.n)
	case "filter", "map":
		fmt.Fprintf(&b, "[f%d]", n.fn)
	case "while":
		if n.fn == 5 {
			fmt.Fprintf(&b, "[false-on-call-%d]", n.m)
		} else {
			fmt.Fprintf(&b, "[f%d]", n.fn)
		}
	case "compactfunc", "runssep", "runsflat":
		fmt.Fprintf(&b, "[/%d]", n.n)
	case "runshead":
		fmt.Fprintf(&b, "[/%d take %d]", n.n, n.m)
	case "mapstream":
		fmt.Fprintf(&b, "[par=%d buf=%d f%d]", n.n, n.m, n.fn)
	case "batch":
		fmt.Fprintf(&b, "[size=%d wait=%dms]", n.n, n.m)
	}
	if len(n.kids) > 0 {
		b.WriteString("(")
		for i, k := range n.kids {
			if i > 0 {
				b.WriteString(", ")
			}
			b.WriteString(k.String())
		}
		b.WriteString(")")
	}
	return b.String()
}

func (n *pnode) walk(f func(*pnode)) {
	f(n)
	for _, k := range n.kids {
		k.walk(f)
	}
}

func (n *pnode) has(ops ...string) bool {
	found := false
	n.walk(func(x *pnode) {
		for _, o := range ops {
			if x.op == o {
				found = true
			}
		}
	})
	return found
}

// scripted pure functions ------------------------------------------------------------------------

func mod(x, m int) int { return ((x % m) + m) % m }

func predFn(id, x int) bool {
	switch id {
	case 0:
		return mod(x, 2) == 0
	case 1:
		return mod(x, 3) != 0
	case 2:
		return x < 4
	case 3:
		return true
	default:
		return false
	}
}

func mapFn(id, x int) int {
	switch id {
	case 0:
		return x + 1
	case 1:
		return x * 2
	default:
		if x < 0 {
			return x
		}
		return x / 2
	}
}

// whilePred returns the predicate of a While node; fn 5 is stateful (see the generator).
func whilePred(n *pnode) func(int) bool {
	if n.fn != 5 {
		return func(x int) bool { return predFn(n.fn, x) }
	}
	calls := 0
	return func(int) bool {
		calls++
		return calls != n.m
	}
}

func coarseEq(k, a, b int) bool {
	if a < 0 || b < 0 {
		return a == b
	}
	return a/k == b/k
}

// generator ---------------------------------------------------------------------------------------

type pgen struct {
	r       *R
	nsrc    int
	maxSrc  int
	nchan   int
	allowGo bool // goroutine-backed nodes allowed (only at the root for batch/merge)
}

func (g *pgen) items() []int {
	r := g.r
	n := []int{3, 0, 1, 2, 5, 6, 4}[r.Choose(7, "len")]
	out := make([]int, n)
	switch r.Choose(5, "shape") {
	case 0: // ascending
		for i := range out {
			out[i] = i
		}
	case 1: // all equal
		for i := range out {
			out[i] = 2
		}
	case 2: // alternating
		for i := range out {
			out[i] = i % 2
		}
	case 3: // runs at start and end
		for i := range out {
			switch {
			case i < 2:
				out[i] = 1
			case i >= n-2:
				out[i] = 5
			default:
				out[i] = 3
			}
		}
	default:
		for i := range out {
			out[i] = r.Choose(7, "item")
		}
	}
	return out
}

// chunkSize: 1-4, rarely the largest legal value (everything in one chunk).
func (g *pgen) chunkSize() int {
	n := 1 + g.r.Choose(4, "chunk-n")
	if g.r.Choose(16, "chunk-huge") == 15 {
		n = hugeChunk
	}
	return n
}

func (g *pgen) leaf() *pnode {
	r := g.r
	k := r.Choose(8, "leaf")
	if g.nsrc == 0 {
		k = 0 // at least one instrumented source
	}
	if k >= 3 || g.nsrc >= g.maxSrc {
		switch k {
		case 3:
			return &pnode{op: "slice", items: g.items()}
		case 4:
			return &pnode{op: "counter", n: r.Choose(5, "counter-n")}
		case 5:
			return &pnode{op: "repeat", n: r.Choose(4, "repeat-n"), m: r.Choose(3, "repeat-item")}
		case 6:
			return &pnode{op: "empty"}
		case 7:
			if g.allowGo && r.Choose(2, "ictx") == 1 {
				// an iterator (behind FromIterator) that cancels the consumer's per-call context
				// from inside its own Next, at one position
				it := g.items()
				return &pnode{op: "ictx", items: it, m: r.Choose(len(it)+1, "ictx-at")}
			}
			c := &pnode{op: "chan", items: g.items(), m: r.Choose(2, "chan-live"), id: g.nchan}
			g.nchan++
			return c
		}
		if g.nsrc >= g.maxSrc {
			return &pnode{op: "slice", items: g.items()}
		}
	}
	n := &pnode{op: "src", items: g.items(), id: g.nsrc}
	g.nsrc++
	return n
}

func (g *pgen) node(depth int) *pnode {
	r := g.r
	if depth <= 0 || r.Choose(5, "leaf?") == 0 {
		return g.leaf()
	}
	switch r.Choose(14, "op") {
	case 0:
		return &pnode{op: "filter", fn: r.Choose(5, "pred"), kids: []*pnode{g.node(depth - 1)}}
	case 1:
		return &pnode{op: "map", fn: r.Choose(3, "mapf"), kids: []*pnode{g.node(depth - 1)}}
	case 2:
		return &pnode{op: "first", n: []int{2, 0, 1, 5, 100, -1, math.MaxInt}[r.Choose(7, "first-n")], kids: []*pnode{g.node(depth - 1)}}
	case 3:
		w := &pnode{op: "while", fn: r.Choose(6, "pred"), kids: []*pnode{g.node(depth - 1)}}
		if w.fn == 5 {
			// a predicate with state: false exactly on its m-th call, true otherwise (the end must stay
			// reported even though asking the predicate again would now say true)
			w.m = 1 + r.Choose(4, "nth-false")
		}
		return w
	case 4:
		return &pnode{op: "compact", kids: []*pnode{g.node(depth - 1)}}
	case 5:
		return &pnode{op: "compactfunc", n: 2 + r.Choose(2, "coarse"), kids: []*pnode{g.node(depth - 1)}}
	case 6:
		kid := g.node(depth - 1)
		p := &pnode{op: "peek", kids: []*pnode{kid}}
		for i := 0; i < 12; i++ {
			p.peeks = append(p.peeks, r.Choose(2, "peek?") == 1)
		}
		return p
	case 7:
		return &pnode{op: "chunk", n: g.chunkSize(), kids: []*pnode{g.node(depth - 1)}}
	case 8:
		return &pnode{op: "chunkflat", n: g.chunkSize(), kids: []*pnode{g.node(depth - 1)}}
	case 9:
		return &pnode{op: "runssep", n: 1 + r.Choose(3, "coarse"), kids: []*pnode{g.node(depth - 1)}}
	case 10:
		if r.Choose(2, "runs-variant") == 1 {
			// only the first m items of every run are read before the outer stream is advanced
			return &pnode{op: "runshead", n: 1 + r.Choose(3, "coarse"), m: r.Choose(3, "take"), kids: []*pnode{g.node(depth - 1)}}
		}
		return &pnode{op: "runsflat", n: 1 + r.Choose(3, "coarse"), kids: []*pnode{g.node(depth - 1)}}
	case 11:
		return &pnode{op: "flatmap", n: r.Choose(4, "fanout"), kids: []*pnode{g.node(depth - 1)}}
	case 12:
		nk := r.Choose(4, "join-n")
		j := &pnode{op: "join"}
		for i := 0; i < nk; i++ {
			j.kids = append(j.kids, g.node(depth-1))
		}
		return j
	default:
		if g.allowGo {
			return &pnode{op: "mapstream", n: []int{2, 1, 3, -1}[r.Choose(4, "ms-par")], m: []int{2, 0, 1, 4}[r.Choose(4, "ms-buf")], fn: r.Choose(3, "mapf"), kids: []*pnode{g.node(depth - 1)}}
		}
		return &pnode{op: "map", fn: r.Choose(3, "mapf"), kids: []*pnode{g.node(depth - 1)}}
	}
}

// program generates a whole program. Goroutine-backed batch/merge only appear at the root.
func (g *pgen) program() *pnode {
	r := g.r
	depth := 1 + r.Choose(4, "depth")
	if g.allowGo {
		switch r.Choose(6, "root") {
		case 3:
			return &pnode{op: "mapstream", n: []int{2, 1, 3, -1}[r.Choose(4, "ms-par")], m: []int{2, 0, 1, 4}[r.Choose(4, "ms-buf")], fn: r.Choose(3, "mapf"), kids: []*pnode{g.node(depth - 1)}}
		case 4:
			return &pnode{op: "batch", n: 1 + r.Choose(4, "batch-n"), m: 10 * (1 + r.Choose(4, "batch-wait")), kids: []*pnode{g.node(depth - 1)}}
		case 5:
			nk := r.Choose(4, "merge-n")
			m := &pnode{op: "merge"}
			for i := 0; i < nk; i++ {
				m.kids = append(m.kids, g.node(depth-1))
			}
			return m
		}
	}
	return g.node(depth)
}

// lazy reference model ------------------------------------------------------------------------------

var errMEnd = errors.New("model: end")

type mIter interface{ next() (int, error) }

type mSrc struct {
	items []int
	pos   int
	errAt int // >= 0: permanent error at this position
	err   error
	endAt int // >= 0: the source ends here (truncated)
}

func (s *mSrc) next() (int, error) {
	if s.errAt >= 0 && s.pos >= s.errAt {
		return 0, s.err
	}
	if s.endAt >= 0 && s.pos >= s.endAt {
		return 0, errMEnd
	}
	if s.pos >= len(s.items) {
		return 0, errMEnd
	}
	v := s.items[s.pos]
	s.pos++
	return v, nil
}

type mFunc func() (int, error)

func (f mFunc) next() (int, error) { return f() }

type mEnv struct {
	srcs    map[int]*mSrc // by pnode id, including flatmap inner sources (negative ids are not used)
	inner   []*mSrc
	cbCalls int
	cbFail  int // >= 0: this callback call (0-based, global order) fails
	cbErr   error
}

func (e *mEnv) cb() error {
	k := e.cbCalls
	e.cbCalls++
	if e.cbFail >= 0 && k == e.cbFail {
		return e.cbErr
	}
	return nil
}

// mBuild builds the lazy model of a program. plan gives per-source error/truncation positions.
func mBuild(n *pnode, e *mEnv, errAt map[int]int, errs map[int]error, endAt map[int]int) mIter {
	kid := func(i int) mIter { return mBuild(n.kids[i], e, errAt, errs, endAt) }
	switch n.op {
	case "src":
		s := &mSrc{items: n.items, errAt: -1, endAt: -1}
		if p, ok := errAt[n.id]; ok {
			s.errAt, s.err = p, errs[n.id]
		}
		if p, ok := endAt[n.id]; ok {
			s.endAt = p
		}
		e.srcs[n.id] = s
		return s
	case "slice", "chan", "ictx":
		return &mSrc{items: n.items, errAt: -1, endAt: -1}
	case "counter":
		items := make([]int, 0)
		for i := 0; i < n.n; i++ {
			items = append(items, i)
		}
		return &mSrc{items: items, errAt: -1, endAt: -1}
	case "repeat":
		items := make([]int, 0)
		for i := 0; i < n.n; i++ {
			items = append(items, n.m)
		}
		return &mSrc{items: items, errAt: -1, endAt: -1}
	case "empty":
		return &mSrc{errAt: -1, endAt: -1}
	case "filter":
		in := kid(0)
		return mFunc(func() (int, error) {
			for {
				v, err := in.next()
				if err != nil {
					return 0, err
				}
				if err := e.cb(); err != nil {
					return 0, err
				}
				if predFn(n.fn, v) {
					return v, nil
				}
			}
		})
	case "map", "mapstream":
		in := kid(0)
		return mFunc(func() (int, error) {
			v, err := in.next()
			if err != nil {
				return 0, err
			}
			if err := e.cb(); err != nil {
				return 0, err
			}
			return mapFn(n.fn, v), nil
		})
	case "first":
		in := kid(0)
		left := n.n
		return mFunc(func() (int, error) {
			if left <= 0 {
				return 0, errMEnd
			}
			v, err := in.next()
			if err != nil {
				return 0, err
			}
			left--
			return v, nil
		})
	case "while":
		in := kid(0)
		done := false
		pred := whilePred(n)
		return mFunc(func() (int, error) {
			if done {
				return 0, errMEnd
			}
			v, err := in.next()
			if err != nil {
				return 0, err
			}
			if err := e.cb(); err != nil {
				return 0, err
			}
			if !pred(v) {
				done = true
				return 0, errMEnd
			}
			return v, nil
		})
	case "compact", "compactfunc":
		in := kid(0)
		first := true
		prev := 0
		eq := func(a, b int) bool { return a == b }
		if n.op == "compactfunc" {
			eq = func(a, b int) bool { return coarseEq(n.n, a, b) }
		}
		return mFunc(func() (int, error) {
			for {
				v, err := in.next()
				if err != nil {
					return 0, err
				}
				if first || !eq(prev, v) {
					first = false
					prev = v
					return v, nil
				}
			}
		})
	case "peek":
		in := kid(0)
		has := false
		held := 0
		call := 0
		return mFunc(func() (int, error) {
			doPeek := call < len(n.peeks) && n.peeks[call]
			call++
			if doPeek && !has {
				v, err := in.next()
				if err != nil {
					return 0, err
				}
				has, held = true, v
			}
			if has {
				has = false
				return held, nil
			}
			return in.next()
		})
	case "chunk", "batch":
		// items of a chunk followed by a separator; batch boundaries are timing dependent, so the
		// oracle strips separators for batch (the model yields chunks of the full size).
		in := kid(0)
		var buf []int
		ended := false
		return mFunc(func() (int, error) {
			for len(buf) == 0 {
				if ended {
					return 0, errMEnd
				}
				var chunk []int
				for len(chunk) < n.n {
					v, err := in.next()
					if err == errMEnd {
						ended = true
						break
					}
					if err != nil {
						return 0, err
					}
					chunk = append(chunk, v)
				}
				if len(chunk) > 0 {
					buf = append(chunk, sepChunk)
				}
			}
			v := buf[0]
			buf = buf[1:]
			return v, nil
		})
	case "chunkflat", "runsflat":
		// chunking / run splitting followed by flattening is the identity on items, but chunkflat
		// pulls a whole chunk before yielding its first item
		in := kid(0)
		if n.op == "runsflat" {
			return in
		}
		var buf []int
		ended := false
		return mFunc(func() (int, error) {
			for len(buf) == 0 {
				if ended {
					return 0, errMEnd
				}
				for len(buf) < n.n {
					v, err := in.next()
					if err == errMEnd {
						ended = true
						break
					}
					if err != nil {
						return 0, err
					}
					buf = append(buf, v)
				}
			}
			v := buf[0]
			buf = buf[1:]
			return v, nil
		})
	case "runssep":
		in := kid(0)
		has := false
		held := 0
		inRun := false
		first := 0
		ended := false
		return mFunc(func() (int, error) {
			if ended {
				return 0, errMEnd
			}
			if !has {
				v, err := in.next()
				if err == errMEnd {
					if inRun {
						inRun = false
						ended = true
						return sepRun, nil
					}
					return 0, errMEnd
				}
				if err != nil {
					return 0, err
				}
				has, held = true, v
			}
			if !inRun {
				inRun = true
				first = held
				has = false
				return held, nil
			}
			if coarseEq(n.n, first, held) {
				has = false
				return held, nil
			}
			inRun = false
			return sepRun, nil
		})
	case "runshead":
		// the first m items of every run, then a separator; the rest of the run is skipped when the
		// outer sequence is advanced
		in := kid(0)
		has := false
		held := 0
		state := 0 // 0: between runs, 1: inside a run (taking), 2: marker pending after the take
		first := 0
		taken := 0
		return mFunc(func() (int, error) {
			for {
				switch state {
				case 0:
					if !has {
						v, err := in.next()
						if err != nil {
							return 0, err
						}
						has, held = true, v
					}
					first = held
					taken = 0
					state = 1
				case 1:
					if taken >= n.m {
						state = 2
						continue
					}
					if !has {
						v, err := in.next()
						if err == errMEnd {
							state = 3
							return sepRun, nil
						}
						if err != nil {
							return 0, err
						}
						has, held = true, v
					}
					if !coarseEq(n.n, first, held) {
						state = 0
						return sepRun, nil
					}
					has = false
					taken++
					return held, nil
				case 2:
					// marker first (the adaptor emits it when it stops reading the run), then the
					// remainder of the run is skipped as part of advancing the outer sequence
					state = 4
					return sepRun, nil
				case 4:
					for {
						if !has {
							v, err := in.next()
							if err == errMEnd {
								state = 3
								break
							}
							if err != nil {
								return 0, err
							}
							has, held = true, v
						}
						if !coarseEq(n.n, first, held) {
							state = 0
							break
						}
						has = false
					}
				case 3:
					return 0, errMEnd
				}
			}
		})
	case "flatmap":
		in := kid(0)
		var cur *mSrc
		return mFunc(func() (int, error) {
			for {
				if cur == nil {
					v, err := in.next()
					if err != nil {
						return 0, err
					}
					if err := e.cb(); err != nil {
						return 0, err
					}
					cur = &mSrc{items: flatItems(v, n.n), errAt: -1, endAt: -1}
					e.inner = append(e.inner, cur)
				}
				v, err := cur.next()
				if err == errMEnd {
					cur = nil
					continue
				}
				return v, err
			}
		})
	case "join":
		kids := make([]mIter, len(n.kids))
		for i := range n.kids {
			kids[i] = kid(i)
		}
		i := 0
		return mFunc(func() (int, error) {
			for i < len(kids) {
				v, err := kids[i].next()
				if err == errMEnd {
					i++
					continue
				}
				return v, err
			}
			return 0, errMEnd
		})
	case "merge":
		// no deterministic order: the oracle works on the kids' models directly
		kids := make([]mIter, len(n.kids))
		for i := range n.kids {
			kids[i] = kid(i)
		}
		i := 0
		return mFunc(func() (int, error) {
			for i < len(kids) {
				v, err := kids[i].next()
				if err == errMEnd {
					i++
					continue
				}
				return v, err
			}
			return 0, errMEnd
		})
	}
	panic("model: unknown op " + n.op)
}

func flatItems(v, fan int) []int {
	if v < 0 {
		return []int{v}
	}
	out := make([]int, 0, fan)
	for i := 0; i < fan; i++ {
		out = append(out, v*10+i)
	}
	return out
}

// mDrain runs a model to its end (or error) and returns outputs, the terminal error (nil for a
// normal end) and, for each output index j, the number of items every source had handed over by
// the time output j was produced.
func mDrain(it mIter, e *mEnv, limit int) (out []int, term error, pulls []map[int]int) {
	for len(out) < limit {
		v, err := it.next()
		if err == errMEnd {
			return out, nil, pulls
		}
		if err != nil {
			return out, err, pulls
		}
		out = append(out, v)
		p := map[int]int{}
		for id, s := range e.srcs {
			p[id] = s.pos
		}
		pulls = append(pulls, p)
	}
	return out, nil, pulls
}
