package worlds

import (
	"math"
	"fmt"
	"runtime"
	"weak"

	"github.com/bradenaw/juniper/container/tree"
	"github.com/bradenaw/juniper/iterator"
)

// World `tree` (C01, C02, C03): 1-3 holders of copies of one tree.Map / tree.Set, up to four live
// iterators, a reference model advanced in lock-step (w_tree_model.go) and a structure oracle that
// reads the nodes through container/tree/verif_export.go (w_tree_check.go). Single goroutine; the
// tape decides configuration, phases and, step by step, which party acts with which arguments.

const tMaxIters = 4

func init() {
	Register(&World{Name: "tree", Props: []string{"C01", "C02", "C03"}, Concurrent: false, Run: treeWorld})
	ExpectedProbes["tree"] = []string{
		"depth>=3", "thorough:depth>=4", "coarse-overwrite-equivalent-key", "empty-first-last", "copy-sees-write",
		"bounds/unb-unb", "bounds/unb-inc", "bounds/unb-exc", "bounds/inc-unb", "bounds/inc-inc", "bounds/inc-exc",
		"bounds/exc-unb", "bounds/exc-inc", "bounds/exc-exc",
		"steal-left", "steal-right", "merge-left", "merge-right", "steal-internal", "merge-cascade>=2", "root-collapse",
		"split", "split-cascade>=2", "split-new-root", "tree-emptied",
		"fill-15", "fill-16", "fill-127", "fill-128", "fill-255", "fill-256",
		"iter-reseek/parked-key-deleted", "iter-reseek/node-split", "iter-reseek/node-merged-away",
		"iter-reseek/root-collapse", "iter-reseek/tree-emptied", "iter-parked-on-zero-key",
		"iter-yields-key-inserted-beyond", "iter-exhausted-then-sticky", "iter-gen-wrap", "gc-retention-checked", "lookup-work-checked",
		"comparator-returns-extreme-ints", "bounds/one-key-range",
	}
}

// ---- collection adapters -------------------------------------------------------------------------

type tBound struct {
	kind int // 0 unbounded, 1 included, 2 excluded
	key  int
}

var tBoundNames = [3]string{"unb", "inc", "exc"}

func (b tBound) mk() tree.Bound[int] {
	switch b.kind {
	case 1:
		return tree.Included(b.key)
	case 2:
		return tree.Excluded(b.key)
	}
	return tree.Unbounded[int]()
}

func (b tBound) String() string {
	if b.kind == 0 {
		return "Unbounded"
	}
	return fmt.Sprintf("%s(%d)", map[int]string{1: "Included", 2: "Excluded"}[b.kind], b.key)
}

type tColl interface {
	put(k int, v *tval)
	del(k int)
	get(k int) *tval
	contains(k int) bool
	length() int
	first() (int, *tval)
	last() (int, *tval)
	iter(useIterate bool, lo, hi tBound, rev bool) func() (int, *tval, bool)
	copyOf() tColl
	structure(w *treeW) tStruct
}

type tMapColl struct{ m tree.Map[int, *tval] }

func tPassMap(m tree.Map[int, *tval]) tree.Map[int, *tval] { return m }
func tPassSet(s tree.Set[int]) tree.Set[int]               { return s }

func (c *tMapColl) put(k int, v *tval)  { c.m.Put(k, v) }
func (c *tMapColl) del(k int)           { c.m.Delete(k) }
func (c *tMapColl) get(k int) *tval     { return c.m.Get(k) }
func (c *tMapColl) contains(k int) bool { return c.m.Contains(k) }
func (c *tMapColl) length() int         { return c.m.Len() }
func (c *tMapColl) first() (int, *tval) { return c.m.First() }
func (c *tMapColl) last() (int, *tval)  { return c.m.Last() }
func (c *tMapColl) copyOf() tColl       { return &tMapColl{m: tPassMap(c.m)} }
func (c *tMapColl) structure(w *treeW) tStruct {
	m := c.m
	return &tStructT[*tval]{w: w, root: func() tNodeH[*tval] { return m.VerifRoot() }}
}
func (c *tMapColl) iter(useIterate bool, lo, hi tBound, rev bool) func() (int, *tval, bool) {
	var it iterator.Iterator[tree.KVPair[int, *tval]]
	switch {
	case useIterate:
		it = c.m.Iterate()
	case rev:
		it = c.m.RangeReverse(lo.mk(), hi.mk())
	default:
		it = c.m.Range(lo.mk(), hi.mk())
	}
	return func() (int, *tval, bool) {
		kv, ok := it.Next()
		return kv.Key, kv.Value, ok
	}
}

type tSetColl struct{ s tree.Set[int] }

func (c *tSetColl) put(k int, v *tval)  { c.s.Add(k) }
func (c *tSetColl) del(k int)           { c.s.Remove(k) }
func (c *tSetColl) get(k int) *tval     { return nil }
func (c *tSetColl) contains(k int) bool { return c.s.Contains(k) }
func (c *tSetColl) length() int         { return c.s.Len() }
func (c *tSetColl) first() (int, *tval) { return c.s.First(), nil }
func (c *tSetColl) last() (int, *tval)  { return c.s.Last(), nil }
func (c *tSetColl) copyOf() tColl       { return &tSetColl{s: tPassSet(c.s)} }
func (c *tSetColl) structure(w *treeW) tStruct {
	s := c.s
	return &tStructT[struct{}]{w: w, root: func() tNodeH[struct{}] { return s.VerifRoot() }}
}
func (c *tSetColl) iter(useIterate bool, lo, hi tBound, rev bool) func() (int, *tval, bool) {
	var it iterator.Iterator[int]
	switch {
	case useIterate:
		it = c.s.Iterate()
	case rev:
		it = c.s.RangeReverse(lo.mk(), hi.mk())
	default:
		it = c.s.Range(lo.mk(), hi.mk())
	}
	return func() (int, *tval, bool) {
		k, ok := it.Next()
		return k, nil, ok
	}
}

// ---- world state ---------------------------------------------------------------------------------

type tIter struct {
	next           func() (int, *tval, bool)
	rev            bool
	lo, hi         tBound
	minPos, maxPos int // inclusive range of positions inside the bounds
	lastPos        int // position of the previous yield, or the sentinel just outside the near bound
	lastEv         int // event number of the previous yield (of the creation before the first)
	parkPos        int // model successor of lastPos at that event (-1: none): where the cursor is parked
	done           bool
	yields         int
	// what happened to the parked position since the previous yield (probes only)
	fDeleted, fSplit, fGone, fCollapse, fEmptied bool
	insertedBeyond                               int // a position inserted beyond parkPos since creation, or -1
	modsAtLastNext                               int // w.structMods at the previous Next (or at creation)
}

func (it *tIter) dir() string {
	if it.rev {
		return "reverse"
	}
	return "forward"
}

type tSpin struct{}

type treeW struct {
	r  *R
	tr bool
	// configuration
	isSet    bool
	fromLess bool
	cmpMag   bool
	cmpExt   int // 1: the extreme ints stand for "less"/"greater", 2: MinInt for less, 1 for greater
	order    int // 0 natural, 1 reversed, 2 coarse (k/4 classes)
	P        int // number of positions; fills use [2, P-2)
	off      int // added to every key: 0 or tKeyOff
	slack    int // positions per key of the largest fill
	stride   int // step of monotone fills
	maxN     int
	budget   int
	gcRun    bool
	checkAll bool // structure check after every operation (focus C03)
	// parties
	holders []tColl
	st      tStruct
	iters   [tMaxIters]*tIter
	nLive   int
	// model
	m  *tModel
	ev int
	// instrumentation
	cmpN, cmpLimit int
	structMods     int // effective inserts + deletes so far (each is one structural modification)
	wrapTarget     int // 0, or the power of two the run will make the modification count between two Next calls
	// the stored keys the comparator was shown during the current Get/Contains
	lookupKey    int
	lookupKeySet bool
	cmpOthers    []int
	inCall         string
	// structure knowledge from the last full check
	depth, nodes int
	lastRepair   string
	// GC retention
	dead    []weak.Pointer[tval]
	nextVal int
	// phase state
	phase, phaseLeft, pattern, target int
	sawT, sawJ, sawS                  int
	churnC                            int
	hammer                            bool
	tgMode                            int
	buf                               []int
	boundsSeen                        [9]bool
}

func (w *treeW) violate(prop, sig, format string, args ...any) {
	if prop == "C03" && w.r.Focus != "C03" {
		// The structure oracle does not feed the reference model: when another property is being
		// checked a structural defect must not end the run (as a sibling's violation would), or the
		// wrong answers it leads to would never be observed and attributed to that property.
		return
	}
	w.r.Violate(prop, sig, format, args...)
}

// key <-> position. Positions follow the collection's order; one position per equivalence class.
// tKeyOff is added to every key the world hands to the library (a multiple of 4, so that the coarse
// order's classes are unchanged): the zero value of the key type is then never a key of the run, and
// a comparator call that receives it - or any other key the collection was never given - is the
// library comparing garbage (a vacated slot), which a user's comparator need not survive (think of
// pointer keys).
//
// Half the runs use offset 0 instead: there the zero value IS a key of the run, which is what exposes
// a vacated slot being taken for that key; the foreign-key oracle is off in those runs.
const tKeyOff = 1000

func (w *treeW) foreign(a, b int) {
	if w.off == 0 {
		return
	}
	for _, k := range [2]int{a, b} {
		if k < tKeyOff-8 || k >= tKeyOff+4*(w.P+4) {
			w.violate(w.r.Focus, "comparator-called-with-foreign-key", "during %s the library called the comparator with key %d, which the collection was never given (the keys of this run are >= %d; 0 is the zero value of a vacated slot)", w.inCall, k, tKeyOff)
			return
		}
	}
}

func (w *treeW) posOf(k int) int {
	k -= w.off
	switch w.order {
	case 0:
		return k + 2
	case 1:
		return w.P - 3 - k
	}
	return (k >> 2) + 2
}

func (w *treeW) repOf(k int) int {
	if w.order == 2 {
		return k & 3
	}
	return 0
}

func (w *treeW) keyOf(pos, rep int) int {
	switch w.order {
	case 0:
		return w.off + pos - 2
	case 1:
		return w.off + w.P - 3 - pos
	}
	return w.off + (pos-2)*4 + rep
}

// the comparators handed to the library (instrumented: they count calls and stop a runaway call)
// rawCmp is the order of the run without instrumentation (harness-side searches).
func (w *treeW) rawCmp(a, b int) int {
	var x, y int
	switch w.order {
	case 0:
		x, y = a, b
	case 1:
		x, y = b, a
	default:
		x, y = a>>2, b>>2
	}
	switch {
	case x < y:
		return -1
	case x > y:
		return 1
	}
	return 0
}

// note records, during a Get/Contains, which stored key a comparator call looked at.
func (w *treeW) note(a, b int) {
	if w.lookupKeySet {
		if a == w.lookupKey {
			w.cmpOthers = append(w.cmpOthers, b)
		} else {
			w.cmpOthers = append(w.cmpOthers, a)
		}
	}
}

func (w *treeW) tick() {
	w.cmpN++
	if w.cmpN > w.cmpLimit {
		panic(tSpin{})
	}
}

func (w *treeW) less(a, b int) bool {
	w.tick()
	w.note(a, b)
	w.foreign(a, b)
	switch w.order {
	case 0:
		return a < b
	case 1:
		return a > b
	}
	return a>>2 < b>>2
}

func (w *treeW) cmp(a, b int) int {
	w.tick()
	w.note(a, b)
	w.foreign(a, b)
	var x, y int
	switch w.order {
	case 0:
		x, y = a, b
	case 1:
		x, y = b, a
	default:
		x, y = a>>2, b>>2
	}
	if w.cmpMag {
		return x - y
	}
	if w.cmpExt != 0 && x != y {
		// any negative number means less and any positive one greater - the two that cannot be
		// negated or doubled included
		switch {
		case x < y:
			return math.MinInt
		case w.cmpExt == 1:
			return math.MaxInt
		}
		return 1
	}
	if x < y {
		return -1
	}
	if x > y {
		return 1
	}
	return 0
}

func (w *treeW) begin(op string) { w.inCall = op; w.cmpN = 0 }
func (w *treeW) end()            { w.inCall = "" }

// catch is deferred by step: a panic that escapes a library call is a violation of the property
// the call belongs to; a panic of the harness itself is re-raised.
func (w *treeW) catch() {
	p := recover()
	if p == nil {
		return
	}
	passThrough(p)
	op := w.inCall
	if op == "" {
		panic(p)
	}
	w.inCall = ""
	_, spin := p.(tSpin)
	switch {
	case op == "next" && spin:
		w.violate("C02", "iter/spin", "an iterator's Next made more than %d comparator calls without returning", w.cmpLimit)
	case op == "next":
		w.violate("C02", "iter/panic", "an iterator's Next panicked: %v", p)
	case spin:
		w.violate("C03", "work/unbounded-call", "%s made more than %d comparator calls without returning", op, w.cmpLimit)
	default:
		w.violate("C01", "panic/"+op, "%s panicked: %v", op, p)
	}
}

// ---- the run -------------------------------------------------------------------------------------

var tBoundariesQuick = []int{16, 15, 31, 127, 128, 255, 256, 400, 1023}
var tBoundariesThorough = []int{256, 255, 1023, 1024, 2047, 2048, 4095, 6000}

func treeWorld(r *R) {
	if (r.Focus == "C01" || r.Focus == "C02") && r.Choose(12, "odd-keys") == 11 {
		treeOddKeys(r)
		return
	}
	w := &treeW{r: r, tr: r.Trace, cmpLimit: 1 << 16}
	w.isSet = r.Choose(2, "set") == 1
	w.fromLess = r.Choose(2, "cmp") == 0
	if !w.fromLess {
		w.cmpMag = r.Choose(2, "cmpmag") == 1
		if !w.cmpMag {
			if w.cmpExt = []int{0, 0, 1, 2}[r.Choose(4, "cmp-extreme")]; w.cmpExt != 0 {
				r.Probe("comparator-returns-extreme-ints")
			}
		}
	}
	w.order = r.Choose(3, "order")
	bl := tBoundariesQuick
	if r.Tier == "thorough" {
		bl = tBoundariesThorough
	}
	w.maxN = bl[r.Choose(len(bl), "maxn")]
	w.slack = []int{2, 1, 4}[r.Choose(3, "slack")]
	w.stride = 1
	w.P = w.maxN*w.slack + r.Choose(3, "extra") + 4
	w.off = tKeyOff * r.Choose(2, "key-offset")
	if r.Tier == "thorough" {
		w.budget = []int{3000, 12000, 50000}[r.Choose(3, "budget")]
		if w.budget < 4*w.maxN {
			w.budget = min(4*w.maxN, 50000)
		}
	} else {
		w.budget = []int{300, 1000, 3000}[r.Choose(3, "budget")]
		if w.budget < 3*w.maxN {
			w.budget = min(3*w.maxN, 3000)
		}
	}
	w.checkAll = r.Focus == "C03"
	if r.Focus == "C02" {
		// rarely: make the modification count between two Next calls of one iterator a power of two
		switch c := r.Choose(64, "gen-wrap-plan"); {
		case c >= 62 && r.Tier == "thorough", c == 63:
			w.wrapTarget = 65536
		case c >= 54:
			w.wrapTarget = 256
		}
	}
	if !w.isSet {
		if r.Focus == "C03" {
			w.gcRun = r.Choose(4, "gcrun") == 3
		} else {
			w.gcRun = r.Choose(16, "gcrun") == 15
		}
	}
	w.m = newTModel(w.P)
	nHolders := 1 + r.Choose(3, "holders")
	var first tColl
	switch {
	case w.isSet && w.fromLess:
		first = &tSetColl{s: tree.NewSet[int](w.less)}
	case w.isSet:
		first = &tSetColl{s: tree.NewSetCmp[int](w.cmp)}
	case w.fromLess:
		first = &tMapColl{m: tree.NewMap[int, *tval](w.less)}
	default:
		first = &tMapColl{m: tree.NewMapCmp[int, *tval](w.cmp)}
	}
	w.holders = append(w.holders, first)
	for i := 1; i < nHolders; i++ {
		w.holders = append(w.holders, first.copyOf()) // copies of the still empty collection
	}
	w.st = first.structure(w)
	w.sawS = 8
	if w.tr {
		r.Logf("config: set=%v fromLess=%v cmpMagnitudes=%v order=%s positions=%d maxN=%d budget=%d holders=%d gcRun=%v",
			w.isSet, w.fromLess, w.cmpMag, []string{"natural", "reversed", "coarse(k/4)"}[w.order], w.P, w.maxN, w.budget, nHolders, w.gcRun)
	}
	r.Hist(w.isSet, w.fromLess, w.order, w.P)
	w.structCheck(true, 0)
	w.phase = -1
	for r.Ops < w.budget && !r.Failed() {
		if w.phaseLeft <= 0 {
			w.newPhase()
		}
		w.phaseLeft--
		w.step()
	}
	if r.Failed() {
		return
	}
	w.finish()
}

func (w *treeW) finish() {
	defer w.catch()
	w.structCheck(true, 0)
	if w.r.Failed() {
		return
	}
	w.doScan(0, false, tBound{}, tBound{}, false, 1<<30)
	w.doLen(len(w.holders) - 1)
}

// ---- phases --------------------------------------------------------------------------------------

const (
	phFill = iota
	phDrain
	phMix
	phIter
	phChurn
	phTarget
)

func (w *treeW) newPhase() {
	r := w.r
	kind := phFill
	if w.phase >= 0 {
		kind = []int{phFill, phDrain, phMix, phIter, phChurn, phTarget, phIter, phFill}[r.Choose(8, "phase")]
	}
	if r.Focus == "C02" && kind != phIter && w.m.n >= 8 && r.Choose(2, "phase-iter") != 0 {
		kind = phIter
	}
	if kind == phIter && w.m.n < 8 && r.Choose(4, "phase-tiny") != 0 {
		kind = phFill // iterating over a nearly empty tree is only occasionally interesting
	}
	w.phase = kind
	n := w.m.n
	switch kind {
	case phFill:
		w.pattern = r.Choose(4, "fillpat")
		// the smallest boundary above the current size, or a tape-chosen larger one
		var cands []int
		for _, b := range []int{15, 16, 31, 127, 128, 255, 256, 400, 1023, 1024, 2047, 2048, 4095, 6000} {
			if b > n && b <= w.maxN {
				cands = append(cands, b)
			}
		}
		if len(cands) == 0 {
			w.phase = phDrain
			w.pattern = r.Choose(4, "drainpat")
			w.target = []int{0, 1, 7, 16, n / 2}[r.Choose(5, "draintarget")]
			w.phaseLeft = 2 * n
			break
		}
		w.target = cands[len(cands)-1-r.Choose(len(cands), "filltarget")]
		if r.Choose(4, "fillnear") == 0 {
			w.target = cands[0]
		}
		w.phaseLeft = 2 * (w.target - n)
		w.sawT, w.sawJ = 0, 0
		w.stride = 1 + r.Choose(w.slack, "stride")
		w.sawS = []int{8, 3, 16, 64}[r.Choose(4, "sawstride")]
	case phDrain:
		w.pattern = r.Choose(4, "drainpat")
		w.target = []int{0, 1, 7, 16, n / 2, n - 20}[r.Choose(6, "draintarget")]
		w.phaseLeft = 2 * n
	case phTarget:
		w.tgMode = r.Choose(tgModes, "tgmode")
		w.target = []int{0, 16, n / 2}[r.Choose(3, "draintarget")]
		w.phaseLeft = 20 + r.Choose(200, "phaselen")
	case phMix:
		w.phaseLeft = 10 + r.Choose(200, "phaselen")
	case phIter:
		w.hammer = r.Choose(2, "hammer") == 1
		w.phaseLeft = 20 + r.Choose(300, "phaselen")
	case phChurn:
		w.churnC = w.pickPos()
		w.phaseLeft = 20 + r.Choose(300, "phaselen")
	}
	if w.tr {
		r.Logf("--- phase %s pattern=%d target=%d len=%d (size %d)", []string{"fill", "drain", "mix", "iter", "churn", "targeted-drain"}[w.phase], w.pattern, w.target, w.phaseLeft, n)
	}
}

func (w *treeW) holder() int { return w.r.Choose(len(w.holders), "holder") }

// pickPos draws a position: uniform, a stored key, next to a stored key, or an extreme.
func (w *treeW) pickPos() int {
	r := w.r
	switch r.Choose(6, "poskind") {
	case 0, 1:
		if w.m.n > 0 {
			return w.m.nth(r.Choose(w.m.n, "nth"))
		}
	case 2:
		if w.m.n > 0 {
			p := w.m.nth(r.Choose(w.m.n, "nth")) + 1 - 2*r.Choose(2, "side")
			return max(0, min(w.P-1, p))
		}
	case 3:
		switch r.Choose(6, "extreme") {
		case 0:
			return 0
		case 1:
			return w.P - 1
		case 2:
			return max(0, w.m.succ(-1)-1)
		case 3:
			return min(w.P-1, w.m.pred(w.P)+1)
		case 4:
			return w.posOf(w.off)
		default:
			return 1
		}
	}
	return r.Choose(w.P, "pos")
}

// pickBounds picks a pair of bounds: mostly two independent ones (inverted and empty intervals
// included), and now and then the narrow shapes an implementation may single out - both bounds on
// the same key (the one-key range when both are Included), or on neighbouring positions.
func (w *treeW) pickBounds() (tBound, tBound) {
	lo, hi := w.pickBound(), w.pickBound()
	switch w.r.Choose(12, "narrow-bounds") {
	case 10:
		if lo.kind != 0 {
			hi = tBound{kind: 1 + w.r.Choose(2, "narrow-kind"), key: w.keyOf(w.posOf(lo.key), w.r.Choose(4, "rep"))}
			if w.r.Choose(2, "one-key-range") == 1 {
				lo.kind, hi.kind = 1, 1
				w.r.Probe("bounds/one-key-range")
			}
		}
	case 11:
		if lo.kind != 0 && w.posOf(lo.key)+1 < w.P {
			hi = tBound{kind: 1 + w.r.Choose(2, "narrow-kind"), key: w.keyOf(w.posOf(lo.key)+1, w.r.Choose(4, "rep"))}
		}
	}
	return lo, hi
}

func (w *treeW) pickBound() tBound {
	k := w.r.Choose(3, "boundkind")
	if k == 0 {
		return tBound{}
	}
	return tBound{kind: k, key: w.keyOf(w.pickPos(), w.r.Choose(4, "rep"))}
}

// nextAbsent returns the first absent position at or after p inside the fill range (wrapping), -1 if full.
func (w *treeW) nextAbsent(p int) int {
	lo, hi := 2, w.P-2
	if p < lo || p >= hi {
		p = lo
	}
	for i := 0; i < hi-lo; i++ {
		if !w.m.has(p) {
			return p
		}
		p++
		if p >= hi {
			p = lo
		}
	}
	return -1
}

func (w *treeW) prevAbsent(p int) int {
	lo, hi := 2, w.P-2
	if p < lo || p >= hi {
		p = hi - 1
	}
	for i := 0; i < hi-lo; i++ {
		if !w.m.has(p) {
			return p
		}
		p--
		if p < lo {
			p = hi - 1
		}
	}
	return -1
}

func (w *treeW) fillPos() int {
	lo, hi := 2, w.P-2
	switch w.pattern {
	case 0: // ascending
		if w.m.n == 0 {
			return lo
		}
		return w.nextAbsent(w.m.pred(w.P) + w.stride)
	case 1: // descending
		if w.m.n == 0 {
			return hi - 1
		}
		return w.prevAbsent(w.m.succ(-1) - w.stride)
	case 2: // sawtooth: interleaved ascending teeth
		for tries := 0; tries < 2*w.sawS+2; tries++ {
			p := lo + w.sawT + w.sawJ*w.sawS
			w.sawJ++
			if p >= hi {
				w.sawT = (w.sawT + 1) % w.sawS
				w.sawJ = 0
				continue
			}
			if !w.m.has(p) {
				return p
			}
		}
		return w.nextAbsent(lo + w.r.Choose(hi-lo, "pos"))
	}
	return w.nextAbsent(lo + w.r.Choose(hi-lo, "pos"))
}

// ---- one step ------------------------------------------------------------------------------------

func (w *treeW) step() {
	defer w.catch()
	r := w.r
	r.Ops++
	w.ev++
	w.lastRepair = ""
	if w.gcRun && w.nLive == 0 && len(w.dead) > 0 && r.Choose(150, "gc") == 149 {
		w.doGC()
		return
	}
	switch w.phase {
	case phFill:
		if w.m.n >= w.target {
			w.fillDone()
			w.phaseLeft = 0
			w.sideOp()
			return
		}
		if r.Choose(8, "side") == 7 {
			w.sideOp()
			return
		}
		p := w.fillPos()
		if p < 0 {
			w.phaseLeft = 0
			w.sideOp()
			return
		}
		w.doPut(w.holder(), p, r.Choose(4, "rep"))
		if w.m.n >= w.target {
			w.fillDone()
			w.phaseLeft = 0
		}
	case phDrain:
		if w.m.n <= w.target || w.m.n == 0 {
			w.phaseLeft = 0
			w.sideOp()
			return
		}
		if r.Choose(8, "side") == 7 {
			w.sideOp()
			return
		}
		var p int
		switch w.pattern {
		case 0:
			p = w.m.succ(-1)
		case 1:
			p = w.m.pred(w.P)
		case 2:
			p = w.m.nth(r.Choose(w.m.n, "nth"))
		default: // from the middle outwards
			p = w.m.nth(w.m.n / 2)
		}
		w.doDel(w.holder(), p, r.Choose(4, "rep"))
	case phTarget:
		if w.m.n <= w.target || w.m.n == 0 {
			w.phaseLeft = 0
			w.sideOp()
			return
		}
		if r.Choose(8, "side") == 7 {
			w.sideOp()
			return
		}
		w.buf = w.st.targets(w.tgMode, w.buf)
		if len(w.buf) == 0 {
			w.buf = w.st.targets(tgSmallestLeaf, w.buf)
		}
		if len(w.buf) == 0 {
			w.sideOp()
			return
		}
		w.doDel(w.holder(), w.buf[r.Choose(len(w.buf), "cand")], r.Choose(4, "rep"))
	case phIter:
		w.iterPhaseStep()
	case phChurn:
		p := w.churnC + r.Choose(24, "churn") - 12
		p = max(0, min(w.P-1, p))
		if r.Choose(8, "side") == 7 {
			w.sideOp()
		} else if w.m.has(p) && (w.m.n >= w.maxN || r.Choose(2, "toggle") == 0) {
			w.doDel(w.holder(), p, r.Choose(4, "rep"))
		} else if w.m.n < w.maxN {
			w.doPut(w.holder(), p, r.Choose(4, "rep"))
		} else {
			w.sideOp()
		}
	default:
		w.sideOp()
	}
}

func (w *treeW) fillDone() {
	switch w.m.n {
	case 15, 16, 127, 128, 255, 256, 1023, 1024, 2047, 2048:
		if w.m.n == w.target {
			w.r.Probe(fmt.Sprintf("fill-%d", w.m.n))
		}
	}
}

// sideOp is a general, unbiased operation by any party.
func (w *treeW) sideOp() {
	r := w.r
	h := w.holder()
	switch r.Choose(16, "op") {
	case 0, 1:
		w.doGet(h, w.pickPos(), r.Choose(4, "rep"))
	case 2:
		w.doContains(h, w.pickPos(), r.Choose(4, "rep"))
	case 3:
		w.doLen(h)
	case 4:
		w.doFirstLast(h, false)
	case 5:
		w.doFirstLast(h, true)
	case 6, 7:
		rev := r.Choose(2, "rev") == 1
		lo, hi := w.pickBounds()
		useIt := lo.kind == 0 && hi.kind == 0 && !rev && r.Choose(2, "iterate") == 0
		w.doScan(h, useIt, lo, hi, rev, 16+r.Choose(120, "scanlimit"))
	case 8:
		w.iterNew(h)
	case 9, 10, 11:
		if w.nLive > 0 {
			w.iterNext(w.pickIter())
		} else {
			w.doContains(h, w.pickPos(), r.Choose(4, "rep"))
		}
	case 12, 13:
		if w.m.n < w.maxN {
			w.doPut(h, w.pickPos(), r.Choose(4, "rep"))
		} else {
			w.doDel(h, w.pickPos(), r.Choose(4, "rep"))
		}
	case 14:
		w.doDel(h, w.pickPos(), r.Choose(4, "rep"))
	case 15:
		switch r.Choose(4, "rare") {
		case 0:
			if w.nLive > 0 {
				w.iterDrop(w.pickIter())
				return
			}
		case 1:
			if len(w.holders) > 1 {
				// a holder replaces its copy by a fresh copy of another holder's value
				g := w.holder()
				w.holders[h] = w.holders[g].copyOf()
				if w.tr {
					r.Logf("holder %d takes a fresh copy of holder %d's value", h, g)
				}
			}
		}
		w.doLen(h)
	}
}

// ---- structure oracle scheduling -----------------------------------------------------------------

// structCheck runs the C03 structure oracle after an operation that touched position pos. full
// forces a whole-tree walk; otherwise small trees are walked completely and large trees along the
// path of pos (every node the operation can have touched), with a whole walk every 16th operation.
func (w *treeW) structCheck(full bool, pos int) {
	if !full {
		if !w.checkAll && w.r.Ops%32 != 0 {
			return
		}
		if w.m.n > 300 && w.r.Ops%16 != 0 {
			if w.st.pathCheck(pos) || w.r.Failed() {
				return
			}
		}
	}
	depth, nodes, keys, _ := w.st.fullCheck()
	if w.r.Failed() {
		return
	}
	ln := w.holders[0].length()
	if keys != ln {
		w.violate("C03", "len/count-mismatch", "Len() reports %d but the tree stores %d keys", ln, keys)
		return
	}
	if keys >= 1 && depth > tDepthBound(keys) {
		w.violate("C03", "depth/exceeds-bound", "a tree of %d keys has %d levels; the bound 1+floor(log8((n+1)/2)) is %d", keys, depth, tDepthBound(keys))
		return
	}
	w.depth, w.nodes = depth, nodes
	if depth >= 3 {
		w.r.Probe("depth>=3")
	}
	if depth >= 4 {
		w.r.Probe("depth>=4")
	}
}

// afterMutation: structure check, shape-delta probes, iterator flags.
func (w *treeW) afterMutation(pos int, boundary bool, isDel bool, wasPresent bool) {
	d0, n0 := w.depth, w.nodes
	w.structCheck(boundary, pos)
	if w.r.Failed() {
		return
	}
	kind := 0
	if boundary {
		dn := w.nodes - n0
		if isDel {
			rep := w.st.postDelete()
			if rep != "" {
				w.r.Probe(rep)
				w.lastRepair = rep
			}
			merges := -dn
			if w.depth < d0 && w.depth > 0 {
				merges--
				w.r.Probe("root-collapse")
				kind = 5
			}
			if merges >= 2 {
				w.r.Probe("merge-cascade>=2")
				kind = 6
			} else if kind == 0 {
				switch rep {
				case "steal-left", "steal-right":
					kind = 3
				case "merge-left", "merge-right":
					kind = 4
				}
			}
		} else if dn > 0 {
			splits := dn
			w.r.Probe("split")
			kind = 1
			if w.depth > d0 && d0 > 0 {
				splits--
				w.r.Probe("split-new-root")
				kind = 2
			}
			if splits >= 2 {
				w.r.Probe("split-cascade>=2")
				kind = 7
			}
		}
		if w.nLive > 0 {
			for i, it := range w.iters {
				if it == nil || it.done {
					continue
				}
				gone, split := w.st.parkObserve(i)
				if gone && w.depth < d0 {
					it.fCollapse = true
				} else if gone {
					it.fGone = true
				}
				if split {
					it.fSplit = true
				}
				if w.depth < d0 && w.depth > 0 {
					it.fCollapse = true
				}
			}
		}
	}
	if isDel && wasPresent && w.m.n == 0 {
		w.r.Probe("tree-emptied")
		for _, it := range w.iters {
			if it != nil && !it.done {
				it.fEmptied = true
			}
		}
	}
	rc := w.st.rootN()
	switch {
	case rc >= 15:
		rc = 4
	case rc >= 8:
		rc = 3
	case rc >= 2:
		rc = 2
	}
	op := 0
	if isDel {
		op = 1
	}
	live := 0
	if w.nLive > 0 {
		live = 1
	}
	pres := 0
	if wasPresent {
		pres = 1
	}
	// leaf occupancy class before the operation: minimal, middle, full (or key found above a leaf / absent)
	lc := 0
	switch tn := w.st.touchedN(); {
	case tn < 0:
		lc = 0
	case tn <= tMinKeys:
		lc = 1
	case tn >= tMaxKeys:
		lc = 3
	default:
		lc = 2
	}
	w.r.State(uint64(w.depth)<<40 | uint64(rc)<<32 | uint64(kind)<<24 | uint64(op)<<16 | uint64(live)<<8 | uint64(pres)<<4 | uint64(w.order) | uint64(lc)<<48)
}

// ---- operations with the C01 oracle --------------------------------------------------------------

func (w *treeW) newVal() *tval {
	if w.isSet {
		return nil
	}
	w.nextVal++
	v := &tval{id: w.nextVal}
	v.self = v
	return v
}

func (w *treeW) retire(old *tval) {
	if w.gcRun && old != nil && len(w.dead) < 4096 {
		old.self = nil
		w.dead = append(w.dead, weak.Make(old))
	}
}

func (w *treeW) doPut(h, pos, rep int) {
	if w.order != 2 {
		rep = 0
	}
	k := w.keyOf(pos, rep)
	v := w.newVal()
	boundary := w.st.prePut(pos)
	w.begin("put")
	w.holders[h].put(k, v)
	w.end()
	was, old := w.m.put(pos, rep, v, w.ev)
	if !was {
		w.structMods++
	}
	if w.tr {
		w.r.Logf("#%d holder %d Put(%d) [pos %d]%s", w.ev, h, k, pos, map[bool]string{true: " (overwrites)", false: ""}[was])
	}
	w.r.Hist(1, pos, rep)
	if was {
		w.retire(old)
		if w.order == 2 && w.m.ent[pos].reps&(w.m.ent[pos].reps-1) != 0 {
			w.r.Probe("coarse-overwrite-equivalent-key")
		}
	}
	w.noteInsert(pos, was)
	w.afterMutation(pos, boundary, false, was)
	if w.r.Failed() {
		return
	}
	w.checkLen(h, "put")
}

func (w *treeW) doDel(h, pos, rep int) {
	if w.order != 2 {
		rep = 0
	}
	k := w.keyOf(pos, rep)
	boundary := w.st.preDelete(pos)
	w.begin("delete")
	w.holders[h].del(k)
	w.end()
	was, old := w.m.del(pos)
	if was {
		w.structMods++
	}
	if w.tr {
		w.r.Logf("#%d holder %d Delete(%d) [pos %d]%s", w.ev, h, k, pos, map[bool]string{true: "", false: " (absent)"}[was])
	}
	w.r.Hist(2, pos, rep)
	if was {
		w.retire(old)
		for _, it := range w.iters {
			if it != nil && !it.done {
				if it.parkPos == pos {
					it.fDeleted = true
				}
				if it.insertedBeyond == pos {
					it.insertedBeyond = -1
				}
			}
		}
	}
	w.afterMutation(pos, boundary, true, was)
	if w.r.Failed() {
		return
	}
	w.checkLen(h, "delete")
}

func (w *treeW) noteInsert(pos int, was bool) {
	if was || w.nLive == 0 {
		return
	}
	for _, it := range w.iters {
		if it == nil || it.done || it.parkPos < 0 || it.insertedBeyond >= 0 {
			continue
		}
		if pos < it.minPos || pos > it.maxPos {
			continue
		}
		if (!it.rev && pos > it.parkPos) || (it.rev && pos < it.parkPos) {
			it.insertedBeyond = pos
		}
	}
}

func (w *treeW) checkLen(h int, after string) {
	// another holder's copy must see the write too
	g := h
	if len(w.holders) > 1 {
		g = (h + 1) % len(w.holders)
		w.r.Probe("copy-sees-write")
	}
	w.begin("len")
	n := w.holders[g].length()
	w.end()
	if n != w.m.n {
		w.violate("C01", "len/after-"+after, "after %s by holder %d, holder %d's Len() = %d, the ideal map has %d keys", after, h, g, n, w.m.n)
	}
}

func (w *treeW) doLen(h int) {
	w.begin("len")
	n := w.holders[h].length()
	w.end()
	w.r.Hist(3, n)
	if w.tr {
		w.r.Logf("#%d holder %d Len() = %d", w.ev, h, n)
	}
	if n != w.m.n {
		w.violate("C01", "len", "holder %d's Len() = %d, the ideal map has %d keys", h, n, w.m.n)
	}
}

// lookupWork checks the C03 bound on comparator calls of one Get/Contains.
func (w *treeW) lookupWork(op string, calls int) {
	levels := 1
	if w.m.n >= 1 {
		levels = tDepthBound(w.m.n)
	}
	limit := tMaxKeys * levels
	if w.fromLess {
		limit *= 2 // a three-way comparison costs up to two calls of less
	}
	w.r.Probe("lookup-work-checked")
	if w.lookupKeySet && len(w.holders) > 0 {
		// per level: the comparator calls that looked at keys of one node of the search path
		perNode, _ := w.st.levelWork(w.lookupKey, w.cmpOthers)
		lim := tMaxKeys
		if w.fromLess {
			lim *= 2
		}
		if perNode > lim {
			w.violate("C03", "work/comparisons-per-level", "%s(%d) made %d comparator calls on the keys of a single node; 15 key comparisons per level (x2 calls of less) allow %d", op, w.lookupKey, perNode, lim)
			return
		}
	}
	if calls > limit {
		w.violate("C03", "work/comparisons-per-lookup", "%s on a tree of %d keys called the comparator %d times; 15 comparisons per level on at most %d levels allow %d", op, w.m.n, calls, levels, limit)
	}
}

func (w *treeW) doGet(h, pos, rep int) {
	if w.isSet {
		w.doContains(h, pos, rep)
		return
	}
	if w.order != 2 {
		rep = 0
	}
	k := w.keyOf(pos, rep)
	w.begin("get")
	w.lookupKey, w.lookupKeySet, w.cmpOthers = k, true, w.cmpOthers[:0]
	v := w.holders[h].get(k)
	calls := w.cmpN
	w.end()
	defer func() { w.lookupKeySet = false }()
	w.r.Hist(4, pos, v != nil)
	if w.tr {
		w.r.Logf("#%d holder %d Get(%d) [pos %d] -> %s", w.ev, h, k, pos, tValStr(v))
	}
	if w.checkAll {
		w.lookupWork("Get", calls)
		if w.r.Failed() {
			return
		}
	}
	if !w.m.has(pos) {
		if v != nil {
			w.violate("C01", "get/nonzero-for-absent-key", "Get(%d) returned %s but no equivalent key is in the ideal map", k, tValStr(v))
		}
		return
	}
	if want := w.m.ent[pos].val; v != want {
		w.violate("C01", "get/wrong-value", "Get(%d) returned %s, the last value put under an equivalent key is %s", k, tValStr(v), tValStr(want))
		return
	}
	if !w.checkAll {
		w.lookupWork("Get", calls)
	}
}

func (w *treeW) doContains(h, pos, rep int) {
	if w.order != 2 {
		rep = 0
	}
	k := w.keyOf(pos, rep)
	w.begin("contains")
	w.lookupKey, w.lookupKeySet, w.cmpOthers = k, true, w.cmpOthers[:0]
	got := w.holders[h].contains(k)
	calls := w.cmpN
	w.end()
	defer func() { w.lookupKeySet = false }()
	w.r.Hist(5, pos, got)
	if w.tr {
		w.r.Logf("#%d holder %d Contains(%d) [pos %d] -> %v", w.ev, h, k, pos, got)
	}
	if w.checkAll {
		w.lookupWork("Contains", calls)
		if w.r.Failed() {
			return
		}
	}
	if got != w.m.has(pos) {
		w.violate("C01", "contains/wrong", "Contains(%d) = %v, the ideal map says %v", k, got, w.m.has(pos))
		return
	}
	if !w.checkAll {
		w.lookupWork("Contains", calls)
	}
}

func tValStr(v *tval) string {
	if v == nil {
		return "nil"
	}
	return fmt.Sprintf("v%d", v.id)
}

// keyOK: the key returned for position pos must be one of the equivalent keys put there.
func (w *treeW) keyOK(pos, k int) bool {
	return w.posOf(k) == pos && w.m.ent[pos].reps&(1<<uint(w.repOf(k))) != 0
}

func (w *treeW) doFirstLast(h int, last bool) {
	name := "First"
	var k int
	var v *tval
	if last {
		name = "Last"
		w.begin("last")
		k, v = w.holders[h].last()
	} else {
		w.begin("first")
		k, v = w.holders[h].first()
	}
	w.end()
	w.r.Hist(6, last, k, v != nil)
	if w.tr {
		w.r.Logf("#%d holder %d %s() -> %d, %s", w.ev, h, name, k, tValStr(v))
	}
	if w.m.n == 0 {
		w.r.Probe("empty-first-last")
		if k != 0 || v != nil {
			w.violate("C01", "first-last/nonzero-on-empty", "%s() on an empty collection returned (%d, %s), want zero values", name, k, tValStr(v))
		}
		return
	}
	want := w.m.succ(-1)
	if last {
		want = w.m.pred(w.P)
	}
	if w.posOf(k) != want {
		w.violate("C01", "first-last/wrong-key", "%s() returned key %d, the extreme entry of the ideal map is %d", name, k, w.keyOf(want, 0))
		return
	}
	if !w.keyOK(want, k) {
		w.violate("C01", "first-last/unknown-representative", "%s() returned key %d which was never put", name, k)
		return
	}
	if !w.isSet && v != w.m.ent[want].val {
		w.violate("C01", "first-last/wrong-value", "%s() returned value %s with key %d, its current value is %s", name, tValStr(v), k, tValStr(w.m.ent[want].val))
	}
}

// bounds -> inclusive position interval
func (w *treeW) interval(lo, hi tBound) (int, int) {
	minPos, maxPos := 0, w.P-1
	switch lo.kind {
	case 1:
		minPos = w.posOf(lo.key)
	case 2:
		minPos = w.posOf(lo.key) + 1
	}
	switch hi.kind {
	case 1:
		maxPos = w.posOf(hi.key)
	case 2:
		maxPos = w.posOf(hi.key) - 1
	}
	return max(minPos, 0), min(maxPos, w.P-1)
}

func (w *treeW) noteBounds(lo, hi tBound) {
	i := lo.kind*3 + hi.kind
	if !w.boundsSeen[i] {
		w.boundsSeen[i] = true
		w.r.Probe("bounds/" + tBoundNames[lo.kind] + "-" + tBoundNames[hi.kind])
	}
}

// doScan: a range iterator drained at once (no interleaved mutation) must yield exactly the model's
// entries inside the bounds, once each, in order, with current values. At most limit items are read.
func (w *treeW) doScan(h int, useIterate bool, lo, hi tBound, rev bool, limit int) {
	w.noteBounds(lo, hi)
	minPos, maxPos := w.interval(lo, hi)
	dir := "forward"
	if rev {
		dir = "reverse"
	}
	w.begin("range")
	next := w.holders[h].iter(useIterate, lo, hi, rev)
	w.end()
	if w.tr {
		w.r.Logf("#%d holder %d scans %s [%v, %v] (Iterate=%v), positions [%d,%d]", w.ev, h, dir, lo, hi, useIterate, minPos, maxPos)
	}
	// e: next expected position
	var e, prev int
	if rev {
		e, prev = w.m.pred(maxPos+1), maxPos+1
	} else {
		e, prev = w.m.succ(minPos-1), minPos-1
	}
	count := 0
	for {
		more := e >= minPos && e <= maxPos
		if more && count >= limit {
			break
		}
		w.begin("range-next")
		k, v, ok := next()
		w.end()
		if !ok {
			if more {
				w.violate("C01", "range/missing-key/"+dir, "range [%v, %v] ended after %d items; key %d is inside the bounds and was not yielded", lo, hi, count, w.keyOf(e, 0))
				break
			}
			// an exhausted iterator stays exhausted (iterator.Iterator's contract), also without any
			// modification in between
			w.begin("range-next-after-end")
			_, _, again := next()
			w.end()
			if again {
				w.violate("C01", "range/item-after-exhaustion/"+dir, "range [%v, %v] yielded another item after it had reported exhaustion", lo, hi)
			}
			break
		}
		g := w.posOf(k)
		count++
		w.r.Hist(g)
		switch {
		case g < minPos || g > maxPos:
			w.violate("C01", "range/out-of-bounds/"+dir, "range [%v, %v] yielded key %d outside the bounds", lo, hi, k)
		case !w.m.has(g):
			w.violate("C01", "range/absent-key/"+dir, "range [%v, %v] yielded key %d which is not in the ideal map", lo, hi, k)
		case (!rev && g <= prev) || (rev && g >= prev):
			w.violate("C01", "range/order/"+dir, "range [%v, %v] yielded key %d after key %d: not strictly in order / not once each", lo, hi, k, w.keyOf(prev, 0))
		case !more || g != e:
			w.violate("C01", "range/missing-key/"+dir, "range [%v, %v] yielded key %d but skipped key %d", lo, hi, k, w.keyOf(e, 0))
		case !w.keyOK(g, k):
			w.violate("C01", "range/unknown-representative/"+dir, "range yielded key %d which was never put", k)
		case !w.isSet && v != w.m.ent[g].val:
			w.violate("C01", "range/wrong-value/"+dir, "range yielded key %d with value %s, its current value is %s", k, tValStr(v), tValStr(w.m.ent[g].val))
		}
		if w.r.Failed() {
			return
		}
		prev = g
		if rev {
			e = w.m.pred(g)
		} else {
			e = w.m.succ(g)
		}
	}
	w.r.Hist(7, count)
}

// ---- live iterators with the C02 oracle ----------------------------------------------------------

func (w *treeW) pickIter() int {
	k := w.r.Choose(w.nLive, "iter")
	for i, it := range w.iters {
		if it != nil {
			if k == 0 {
				return i
			}
			k--
		}
	}
	return 0
}

func (w *treeW) iterNew(h int) {
	slot := -1
	for i, it := range w.iters {
		if it == nil {
			slot = i
			break
		}
	}
	if slot < 0 {
		w.iterNext(w.pickIter())
		return
	}
	r := w.r
	it := &tIter{rev: r.Choose(2, "rev") == 1, insertedBeyond: -1}
	it.lo, it.hi = w.pickBounds()
	useIt := it.lo.kind == 0 && it.hi.kind == 0 && !it.rev && r.Choose(2, "iterate") == 0
	w.noteBounds(it.lo, it.hi)
	it.minPos, it.maxPos = w.interval(it.lo, it.hi)
	w.begin("range")
	it.next = w.holders[h].iter(useIt, it.lo, it.hi, it.rev)
	w.end()
	it.lastEv = w.ev
	it.modsAtLastNext = w.structMods
	if it.rev {
		it.lastPos = it.maxPos + 1
	} else {
		it.lastPos = it.minPos - 1
	}
	w.iters[slot] = it
	w.nLive++
	w.park(slot)
	r.Hist(8, slot, it.rev, it.minPos, it.maxPos)
	if w.tr {
		r.Logf("#%d holder %d creates iterator I%d %s [%v, %v] (Iterate=%v), positions [%d,%d]", w.ev, h, slot, it.dir(), it.lo, it.hi, useIt, it.minPos, it.maxPos)
	}
}

// park records where the iterator's cursor must be parked now: on the model successor of lastPos.
func (w *treeW) park(slot int) {
	it := w.iters[slot]
	var s int
	if it.rev {
		s = w.m.pred(it.lastPos)
	} else {
		s = w.m.succ(it.lastPos)
		if s >= w.P {
			s = -1
		}
	}
	it.parkPos = s
	it.fDeleted, it.fSplit, it.fGone, it.fCollapse, it.fEmptied = false, false, false, false, false
	w.st.parkCapture(slot, s)
	if s >= 0 && w.keyOf(s, 0) == 0 && w.order != 2 {
		w.r.Probe("iter-parked-on-zero-key")
	}
}

func (w *treeW) iterDrop(slot int) {
	if w.iters[slot] == nil {
		return
	}
	if w.tr {
		w.r.Logf("#%d iterator I%d abandoned", w.ev, slot)
	}
	w.iters[slot] = nil
	w.st.parkCapture(slot, -1)
	w.nLive--
}

// skipped looks for a position strictly between a and b (a < b) inside [minPos,maxPos] that has been
// in the model continuously since before event ev.
func (w *treeW) skipped(it *tIter, a, b int) int {
	a = max(a, it.minPos-1)
	b = min(b, it.maxPos+1)
	for x := w.m.succ(a); x < b; x = w.m.succ(x) {
		if w.m.ent[x].ins < it.lastEv {
			return x
		}
	}
	return -1
}

func (w *treeW) iterNext(slot int) {
	it := w.iters[slot]
	if it == nil {
		return
	}
	dir := it.dir()
	w.begin("next")
	k, v, ok := it.next()
	w.end()
	g := w.posOf(k)
	w.r.Hist(9, slot, ok, g)
	if w.tr {
		if ok {
			w.r.Logf("#%d I%d.Next() -> key %d [pos %d] %s", w.ev, slot, k, g, tValStr(v))
		} else {
			w.r.Logf("#%d I%d.Next() -> exhausted", w.ev, slot)
		}
	}
	if it.done {
		if ok {
			w.violate("C02", "iter/exhaustion-not-sticky/"+dir, "iterator [%v, %v] reported exhaustion and later yielded key %d", it.lo, it.hi, k)
			return
		}
		w.r.Probe("iter-exhausted-then-sticky")
		if w.r.Choose(4, "drop") != 3 {
			w.iterDrop(slot)
		}
		return
	}
	if !ok {
		// (e) nothing that stayed since the previous yield may lie between it and the far bound
		var x int
		if it.rev {
			x = w.skipped(it, it.minPos-1, it.lastPos)
		} else {
			x = w.skipped(it, it.lastPos, it.maxPos+1)
		}
		if x >= 0 {
			w.violate("C02", "iter/skip-at-exhaustion/"+dir, "iterator [%v, %v] reported exhaustion after yielding %s, but key %d is inside the bounds, beyond that key, and has been present since before the previous yield (inserted at event #%d, previous yield/creation at #%d)",
				it.lo, it.hi, w.lastStr(it), w.keyOf(x, 0), w.m.ent[x].ins, it.lastEv)
			return
		}
		w.iterState(it, 2)
		w.iterProbes(it)
		it.done = true
		it.parkPos = -1
		w.st.parkCapture(slot, -1)
		return
	}
	// (b) strictly monotone and inside the bounds
	if g < it.minPos || g > it.maxPos {
		w.violate("C02", "iter/out-of-bounds/"+dir, "iterator [%v, %v] yielded key %d outside its bounds", it.lo, it.hi, k)
		return
	}
	if (!it.rev && g <= it.lastPos) || (it.rev && g >= it.lastPos) {
		w.violate("C02", "iter/not-monotone/"+dir, "iterator [%v, %v] yielded key %d after %s", it.lo, it.hi, k, w.lastStr(it))
		return
	}
	// (c) present now, with its current value
	if !w.m.has(g) {
		w.violate("C02", "iter/absent-key/"+dir, "iterator [%v, %v] yielded key %d which is not in the collection at this moment (previous yield: %s)", it.lo, it.hi, k, w.lastStr(it))
		return
	}
	// Keys are compared up to order-equivalence: a cursor that was parked on a key which has since
	// been deleted and re-put under another equivalent representative yields the representative it
	// remembered; the property does not forbid that. A key that was never put at all is a defect.
	if w.m.ent[g].everReps&(1<<uint(w.repOf(k))) == 0 {
		w.violate("C02", "iter/unknown-representative/"+dir, "iterator yielded key %d which was never put", k)
		return
	}
	if !w.isSet && v != w.m.ent[g].val {
		w.violate("C02", "iter/stale-value/"+dir, "iterator [%v, %v] yielded key %d with value %s, its current value is %s", it.lo, it.hi, k, tValStr(v), tValStr(w.m.ent[g].val))
		return
	}
	// (d) no key that stayed since the previous yield was skipped
	var x int
	if it.rev {
		x = w.skipped(it, g, it.lastPos)
	} else {
		x = w.skipped(it, it.lastPos, g)
	}
	if x >= 0 {
		w.violate("C02", "iter/skip-present-key/"+dir, "iterator [%v, %v] yielded key %d after %s and skipped key %d, which is inside the bounds and has been present since before the previous yield (inserted at event #%d, previous yield/creation at #%d)",
			it.lo, it.hi, k, w.lastStr(it), w.keyOf(x, 0), w.m.ent[x].ins, it.lastEv)
		return
	}
	// (g)
	it.yields++
	if it.yields > w.m.everCnt {
		w.violate("C02", "iter/too-many-yields", "iterator yielded %d keys, only %d distinct keys were ever present", it.yields, w.m.everCnt)
		return
	}
	w.iterState(it, 1)
	w.iterProbes(it)
	if it.insertedBeyond == g {
		w.r.Probe("iter-yields-key-inserted-beyond")
		it.insertedBeyond = -1
	}
	it.lastPos, it.lastEv = g, w.ev
	it.modsAtLastNext = w.structMods
	w.park(slot)
}

func (w *treeW) lastStr(it *tIter) string {
	if it.yields == 0 {
		return "its creation (nothing yielded yet)"
	}
	return fmt.Sprintf("key %d", w.keyOf(it.lastPos, 0))
}

// iterState records (depth, direction, bound kinds, what happened to the parked position, outcome).
func (w *treeW) iterState(it *tIter, outcome int) {
	f := 0
	for i, b := range []bool{it.fDeleted, it.fSplit, it.fGone, it.fCollapse, it.fEmptied, it.rev, it.yields == 0} {
		if b {
			f |= 1 << uint(i)
		}
	}
	w.r.State(1<<60 | uint64(w.depth)<<40 | uint64(f)<<24 | uint64(it.lo.kind*3+it.hi.kind)<<8 | uint64(outcome))
}

func (w *treeW) iterProbes(it *tIter) {
	if it.fDeleted {
		w.r.Probe("iter-reseek/parked-key-deleted")
	}
	if it.fSplit {
		w.r.Probe("iter-reseek/node-split")
	}
	if it.fGone {
		w.r.Probe("iter-reseek/node-merged-away")
	}
	if it.fCollapse {
		w.r.Probe("iter-reseek/root-collapse")
	}
	if it.fEmptied {
		w.r.Probe("iter-reseek/tree-emptied")
	}
}

// iterPhaseStep: iterator steps interleaved with mutations aimed at the iterators' positions.
func (w *treeW) iterPhaseStep() {
	r := w.r
	if w.nLive == 0 || (w.nLive < tMaxIters && r.Choose(12, "newiter") == 11) {
		if w.m.n == 0 && r.Choose(4, "refill") != 0 {
			w.doPut(w.holder(), w.pickPos(), r.Choose(4, "rep"))
			return
		}
		w.iterNew(w.holder())
		return
	}
	c := r.Choose(10, "iterstep")
	slot := w.pickIter()
	if w.wrapTarget > 0 && !w.iters[slot].done && r.Choose(16, "gen-wrap") == 15 {
		w.genWrap(slot)
		w.wrapTarget = 0 // once per run: it costs as much as the whole rest of the history
		return
	}
	switch {
	case c < 4 || w.iters[slot].done:
		w.iterNext(slot)
	case c < 9:
		w.mutateNear(slot)
	default:
		w.sideOp()
	}
}

// genWrap makes the number of structural modifications between two Next calls of one iterator
// exactly a power of two (256 or 65536), the parked key being deleted among them: a change
// detector that keeps only the low bits of a modification counter, or one that compares sizes,
// sees "nothing happened".
func (w *treeW) genWrap(slot int) {
	r := w.r
	it := w.iters[slot]
	target := w.wrapTarget
	since := w.structMods - it.modsAtLastNext
	if since >= target {
		return
	}
	r.Probe("iter-gen-wrap")
	if it.parkPos >= 0 && w.m.has(it.parkPos) && target-since >= 2 {
		w.doDel(w.holder(), it.parkPos, 0)
	}
	// a position that is absent now and not the parked one: toggled on and off
	far := -1
	for p := w.P - 1; p >= 0; p-- {
		if !w.m.has(p) && p != it.parkPos {
			far = p
			break
		}
	}
	if far < 0 {
		return
	}
	for w.structMods-it.modsAtLastNext < target && !r.Failed() {
		w.toggle(far)
	}
	if !r.Failed() {
		w.iterNext(slot)
	}
}

// toggle deletes pos if present, else puts it.
func (w *treeW) toggle(pos int) {
	pos = max(0, min(w.P-1, pos))
	if w.m.has(pos) {
		w.doDel(w.holder(), pos, w.r.Choose(4, "rep"))
	} else {
		w.doPut(w.holder(), pos, w.r.Choose(4, "rep"))
	}
}

func (w *treeW) mutateNear(slot int) {
	r := w.r
	it := w.iters[slot]
	d := 1
	if it.rev {
		d = -1
	}
	p := it.lastPos
	parked := it.parkPos
	if parked < 0 || !w.m.has(parked) {
		if it.rev {
			parked = w.m.pred(p)
		} else {
			parked = w.m.succ(p)
		}
		if parked < 0 || parked >= w.P {
			parked = max(0, min(w.P-1, p+d))
		}
	}
	var c int
	if w.hammer {
		c = []int{6, 6, 7, 7, 8, 0, 9, 6}[r.Choose(8, "near")]
	} else {
		c = r.Choose(10, "near")
	}
	h := w.holder()
	rep := r.Choose(4, "rep")
	switch c {
	case 0:
		w.doDel(h, parked, rep)
	case 1:
		q := p + d
		if q < 0 || q >= w.P || q == parked {
			q = parked
		}
		w.toggle(q)
	case 2:
		if p >= 0 && p < w.P {
			w.toggle(p)
		} else {
			w.toggle(parked)
		}
	case 3:
		w.toggle(p - d*(1+r.Choose(3, "off")))
	case 4:
		w.toggle(parked + d*(1+r.Choose(3, "off")))
	case 5:
		w.toggle(parked + d*(8+r.Choose(64, "off")))
	case 6, 7, 8:
		which := 0
		if c == 7 {
			which = 1 + r.Choose(2, "side")
		} else if c == 8 {
			which = 3 + r.Choose(2, "side")
		}
		w.buf = w.st.nearKeys(parked, which, w.buf)
		if len(w.buf) == 0 {
			w.doDel(h, parked, rep)
			return
		}
		w.doDel(h, w.buf[r.Choose(len(w.buf), "cand")], rep)
	default:
		// grow the node the cursor is parked in
		w.buf = w.st.nearKeys(parked, 0, w.buf)
		q := parked
		if len(w.buf) > 0 {
			q = w.buf[r.Choose(len(w.buf), "cand")]
		}
		q += 1 - 2*r.Choose(2, "side")
		q = max(0, min(w.P-1, q))
		if w.m.has(q) || w.m.n >= w.maxN+64 {
			w.toggle(q)
		} else {
			w.doPut(h, q, rep)
		}
	}
}

// ---- GC retention (C03) --------------------------------------------------------------------------

// doGC: with no live iterator, every value that was overwritten or deleted must be collectable.
func (w *treeW) doGC() {
	w.st.forget() // the harness's own node handles must not keep unlinked nodes alive
	runtime.GC()
	alive := 0
	for _, wp := range w.dead {
		if wp.Value() != nil {
			alive++
		}
	}
	w.r.Probe("gc-retention-checked")
	if w.tr {
		w.r.Logf("#%d GC: %d retired values, %d still reachable", w.ev, len(w.dead), alive)
	}
	if alive > 0 {
		w.violate("C03", "retention/gc-value-still-reachable", "%d of %d values that were overwritten or deleted are still reachable after a garbage collection (no iterator is live)", alive, len(w.dead))
	}
	w.dead = w.dead[:0]
}
