package worlds

import (
	"github.com/bradenaw/juniper/container/tree"
)

// Structure oracle (C03) and structure-directed generation helpers of the `tree` world. Everything
// here only *reads* raw facts through container/tree/verif_export.go; the checks themselves (and
// the constants they use: fan-out 16 => at most 15 keys, at least half full => at least 7) live
// here so that a changed library cannot weaken them.

const (
	tMaxKeys = 15 // fan-out 16
	tMinKeys = 7  // "at least half full"
	tNegInf  = -(1 << 40)
	tPosInf  = 1 << 40
)

// tStruct is the non-generic face of the structure reader (Map values are *tval, Set values struct{}).
type tStruct interface {
	fullCheck() (depth, nodes, keys, rootN int)
	pathCheck(pos int) bool // false: a full check is needed (depth changed)
	prePut(pos int) bool    // true if the Put may change the node structure
	preDelete(pos int) bool // likewise for Delete; remembers the leaf and its siblings
	postDelete() string     // which repair ran, inferred from the remembered nodes: "", steal-left, ...
	nearKeys(pos int, which int, buf []int) []int
	parkCapture(slot int, pos int)
	parkObserve(slot int) (gone bool, split bool)
	targets(mode int, buf []int) []int
	rootN() int
	touchedN() int // key count, before the operation, of the leaf the last prePut/preDelete ended in
	forget()
	// levelWork walks the search path of key and returns the largest number of the recorded
	// comparator calls (others = the stored key each call compared key with) that fell on one node.
	levelWork(key int, others []int) (max int, levels int)
}

type tNodeH[V comparable] = tree.VerifNode[int, V]

type tStructT[V comparable] struct {
	w    *treeW
	root func() tNodeH[V]
	// accumulators of a full walk
	nodes, keys, leafDepth int
	// remembered by preDelete
	dValid                      bool
	dL, dLeft, dRight, dParent  tNodeH[V]
	dLn, dLeftN, dRightN, dParN int
	dParIsRoot                  bool
	// nodes the live iterators are parked in
	park      [tMaxIters]tNodeH[V]
	parkN     [tMaxIters]int
	lastLeafN int
	// target collection
	tmode int
	tbuf  []int
}

func (s *tStructT[V]) levelWork(key int, others []int) (max int, levels int) {
	w := s.w
	x := s.root()
	for !x.Nil() {
		levels++
		n := x.N()
		keys := x.Keys()
		if n > len(keys) {
			n = len(keys)
		}
		c := 0
		for _, o := range others {
			for i := 0; i < n; i++ {
				if keys[i] == o {
					c++
					break
				}
			}
		}
		if c > max {
			max = c
		}
		// descend as a search for key would
		idx := 0
		found := false
		for idx < n {
			d := w.rawCmp(key, keys[idx])
			if d == 0 {
				found = true
				break
			}
			if d < 0 {
				break
			}
			idx++
		}
		if found || x.NumChildSlots() == 0 || x.Child(0).Nil() || idx >= x.NumChildSlots() {
			break
		}
		x = x.Child(idx)
	}
	return max, levels
}

func (s *tStructT[V]) rootN() int    { return s.root().N() }
func (s *tStructT[V]) touchedN() int { return s.lastLeafN }

// forget drops every node handle the harness holds.
func (s *tStructT[V]) forget() {
	var none tNodeH[V]
	s.dValid = false
	s.dL, s.dLeft, s.dRight, s.dParent = none, none, none, none
	for i := range s.park {
		s.park[i] = none
	}
}

// node checks one node locally. lo/hi are exclusive position limits inherited from the ancestors.
func (s *tStructT[V]) node(x, parent tNodeH[V], isRoot bool, lo, hi int) (n int, leaf bool, ok bool) {
	w := s.w
	if x.Parent() != parent {
		w.violate("C03", "parent-link/wrong", "a node's parent link does not point at the node that has it as a child (root: must be nil)")
		return 0, false, false
	}
	n = x.N()
	keys := x.Keys()
	vals := x.Values()
	if n < 0 || n > tMaxKeys || n > len(keys) {
		w.violate("C03", "occupancy/overfull-node", "a node reports %d keys; with fan-out 16 a node holds at most 15", n)
		return 0, false, false
	}
	if !isRoot && n < tMinKeys {
		w.violate("C03", "occupancy/underfull-node", "a non-root node holds %d keys (first key %d); at least half full means >= 7 (tree has %d keys)", n, keys[0], w.m.n)
		return 0, false, false
	}
	prev := lo
	for i := 0; i < n; i++ {
		p := w.posOf(keys[i])
		if p <= prev {
			if i == 0 {
				w.violate("C03", "order/key-outside-limits", "key %d in a node is not above the lower limit inherited from its ancestors: it is not on its own search path", keys[i])
			} else {
				w.violate("C03", "order/in-node-not-ascending", "keys %d,%d at slots %d,%d of one node are not strictly ascending", keys[i-1], keys[i], i-1, i)
			}
			return 0, false, false
		}
		prev = p
	}
	if n > 0 && prev >= hi {
		w.violate("C03", "order/key-outside-limits", "key %d in a node is not below the upper limit inherited from its ancestors: it is not on its own search path", keys[n-1])
		return 0, false, false
	}
	var zeroV V
	for i := n; i < len(keys); i++ {
		if keys[i] != 0 {
			w.violate("C03", "retention/key-slot-not-zeroed", "unused key slot %d of a node with %d keys still holds key %d", i, n, keys[i])
			return 0, false, false
		}
	}
	for i := n; i < len(vals); i++ {
		if vals[i] != zeroV {
			w.violate("C03", "retention/value-slot-not-zeroed", "unused value slot %d of a node with %d keys still references a value", i, n)
			return 0, false, false
		}
	}
	slots := x.NumChildSlots()
	leaf = x.Child(0).Nil()
	for i := 0; i < slots; i++ {
		c := x.Child(i).Nil()
		if i <= n {
			if c != leaf {
				w.violate("C03", "children/count", "a node with %d keys must have %d children or none; child slot %d disagrees with slot 0", n, n+1, i)
				return 0, false, false
			}
		} else if !c {
			w.violate("C03", "retention/child-slot-not-zeroed", "child slot %d of a node with %d keys is not nil", i, n)
			return 0, false, false
		}
	}
	if isRoot && n == 0 && !leaf {
		w.violate("C03", "root/empty-root-with-child", "the root holds no key but has a child")
		return 0, false, false
	}
	return n, leaf, true
}

func (s *tStructT[V]) walk(x, parent tNodeH[V], isRoot bool, depth, lo, hi int) {
	n, leaf, ok := s.node(x, parent, isRoot, lo, hi)
	if !ok {
		return
	}
	s.nodes++
	s.keys += n
	if leaf {
		if s.leafDepth < 0 {
			s.leafDepth = depth
		} else if s.leafDepth != depth {
			s.w.violate("C03", "leaves/uneven-depth", "leaves at depth %d and %d", s.leafDepth, depth)
		}
		return
	}
	keys := x.Keys()
	for i := 0; i <= n; i++ {
		clo, chi := lo, hi
		if i > 0 {
			clo = s.w.posOf(keys[i-1])
		}
		if i < n {
			chi = s.w.posOf(keys[i])
		}
		s.walk(x.Child(i), x, false, depth+1, clo, chi)
		if s.w.r.Failed() {
			return
		}
	}
}

// fullCheck walks the whole tree. Depth counts levels; the empty tree has depth 0.
func (s *tStructT[V]) fullCheck() (depth, nodes, keys, rootN int) {
	s.nodes, s.keys, s.leafDepth = 0, 0, -1
	root := s.root()
	var none tNodeH[V]
	if root.Nil() {
		s.w.violate("C03", "root/nil", "the tree has no root node")
		return 0, 0, 0, 0
	}
	s.walk(root, none, true, 1, tNegInf, tPosInf)
	if s.w.r.Failed() {
		return 0, 0, 0, 0
	}
	depth = s.leafDepth
	if s.keys == 0 {
		depth = 0
	}
	return depth, s.nodes, s.keys, root.N()
}

// search finds pos among the first n keys of x: (index, found).
func (s *tStructT[V]) search(x tNodeH[V], pos int) (int, bool) {
	keys := x.Keys()
	n := x.N()
	if n > len(keys) {
		n = len(keys)
	}
	for i := 0; i < n; i++ {
		p := s.w.posOf(keys[i])
		if pos < p {
			return i, false
		}
		if pos == p {
			return i, true
		}
	}
	return n, false
}

// pathCheck checks the nodes on the search path of pos and their immediate siblings (every node a
// single Put/Delete of that key can touch). Returns false if the leaf is not at the known depth.
func (s *tStructT[V]) pathCheck(pos int) bool {
	w := s.w
	x := s.root()
	var none tNodeH[V]
	if x.Nil() {
		return false
	}
	n, leaf, ok := s.node(x, none, true, tNegInf, tPosInf)
	if !ok {
		return true
	}
	depth := 1
	lo, hi := tNegInf, tPosInf
	for !leaf {
		idx, _ := s.search(x, pos)
		keys := x.Keys()
		var next tNodeH[V]
		var nlo, nhi, nn int
		var nleaf bool
		for j := idx - 1; j <= idx+1; j++ {
			if j < 0 || j > n {
				continue
			}
			clo, chi := lo, hi
			if j > 0 {
				clo = w.posOf(keys[j-1])
			}
			if j < n {
				chi = w.posOf(keys[j])
			}
			cn, cleaf, ok := s.node(x.Child(j), x, false, clo, chi)
			if !ok {
				return true
			}
			if j == idx {
				next, nlo, nhi, nn, nleaf = x.Child(j), clo, chi, cn, cleaf
			} else if cleaf != (depth+1 == w.depth) {
				return false
			}
		}
		x, lo, hi, n, leaf = next, nlo, nhi, nn, nleaf
		depth++
		if depth > w.depth {
			return false
		}
	}
	return depth == w.depth || (w.depth == 0 && depth == 1)
}

func (s *tStructT[V]) prePut(pos int) bool {
	s.lastLeafN = -1
	x := s.root()
	for {
		idx, found := s.search(x, pos)
		if found {
			return false
		}
		c := x.Child(0)
		if c.Nil() {
			s.lastLeafN = x.N()
			return x.N() >= tMaxKeys
		}
		x = x.Child(idx)
		if x.Nil() {
			return true
		}
	}
}

func (s *tStructT[V]) childIndex(p, c tNodeH[V]) int {
	for i := 0; i < p.NumChildSlots(); i++ {
		if p.Child(i) == c {
			return i
		}
	}
	return -1
}

func (s *tStructT[V]) preDelete(pos int) bool {
	s.dValid = false
	s.lastLeafN = -1
	x := s.root()
	for {
		idx, found := s.search(x, pos)
		leaf := x.Child(0).Nil()
		if found {
			if !leaf {
				// the library replaces the key by its predecessor, taken from the rightmost leaf below
				x = x.Child(idx)
				for !x.Nil() && !x.Child(0).Nil() {
					x = x.Child(x.N())
				}
				if x.Nil() {
					return true
				}
			}
			break
		}
		if leaf {
			return false // absent
		}
		x = x.Child(idx)
		if x.Nil() {
			return true
		}
	}
	var none tNodeH[V]
	s.dL, s.dLn = x, x.N()
	s.lastLeafN = s.dLn
	s.dParent = x.Parent()
	s.dLeft, s.dRight = none, none
	s.dLeftN, s.dRightN = 0, 0
	if s.dParent.Nil() {
		s.dValid = true
		return false // the leaf is the root: no repair
	}
	s.dParN = s.dParent.N()
	s.dParIsRoot = s.dParent == s.root()
	i := s.childIndex(s.dParent, x)
	if i < 0 {
		return true
	}
	if i > 0 {
		s.dLeft = s.dParent.Child(i - 1)
		if !s.dLeft.Nil() {
			s.dLeftN = s.dLeft.N()
		}
	}
	if i < s.dParN {
		s.dRight = s.dParent.Child(i + 1)
		if !s.dRight.Nil() {
			s.dRightN = s.dRight.N()
		}
	}
	s.dValid = true
	return s.dLn <= tMinKeys
}

// postDelete infers from the nodes remembered by preDelete which repair the library performed.
func (s *tStructT[V]) postDelete() string {
	if !s.dValid || s.dParent.Nil() || s.dLn > tMinKeys {
		return ""
	}
	kind := ""
	switch {
	case s.dL.N() == 0:
		kind = "merge-left"
	case !s.dRight.Nil() && s.dRight.N() == 0:
		kind = "merge-right"
	case !s.dRight.Nil() && s.dRight.N() == s.dRightN-1 && s.dL.N() == s.dLn:
		kind = "steal-right"
	case !s.dLeft.Nil() && s.dLeft.N() == s.dLeftN-1 && s.dL.N() == s.dLn:
		kind = "steal-left"
	}
	if (kind == "merge-left" || kind == "merge-right") && !s.dParIsRoot && s.dParN == tMinKeys && s.dParent.N() == tMinKeys {
		s.w.r.Probe("steal-internal")
	}
	return kind
}

// locate returns the node holding pos (or the leaf where it would be), its parent and its index in
// the parent (-1 for the root).
func (s *tStructT[V]) locate(pos int) (x, parent tNodeH[V], idxInParent int, found bool) {
	x = s.root()
	idxInParent = -1
	for {
		idx, f := s.search(x, pos)
		if f {
			return x, parent, idxInParent, true
		}
		if x.Child(0).Nil() {
			return x, parent, idxInParent, false
		}
		c := x.Child(idx)
		if c.Nil() {
			return x, parent, idxInParent, false
		}
		parent, idxInParent, x = x, idx, c
	}
}

func (s *tStructT[V]) appendKeys(buf []int, x tNodeH[V]) []int {
	if x.Nil() {
		return buf
	}
	keys := x.Keys()
	n := x.N()
	if n > len(keys) {
		n = len(keys)
	}
	for i := 0; i < n; i++ {
		buf = append(buf, s.w.posOf(keys[i]))
	}
	return buf
}

// nearKeys returns the positions of keys structurally close to pos: which = 0 same node, 1 left
// sibling, 2 right sibling, 3 parent's separators around the node, 4 the whole parent.
func (s *tStructT[V]) nearKeys(pos int, which int, buf []int) []int {
	buf = buf[:0]
	x, parent, i, _ := s.locate(pos)
	switch which {
	case 0:
		return s.appendKeys(buf, x)
	case 1:
		if !parent.Nil() && i > 0 {
			return s.appendKeys(buf, parent.Child(i-1))
		}
	case 2:
		if !parent.Nil() && i < parent.N() {
			return s.appendKeys(buf, parent.Child(i+1))
		}
	case 3:
		if !parent.Nil() {
			keys := parent.Keys()
			if i > 0 && i-1 < len(keys) {
				buf = append(buf, s.w.posOf(keys[i-1]))
			}
			if i < parent.N() && i < len(keys) {
				buf = append(buf, s.w.posOf(keys[i]))
			}
			return buf
		}
	case 4:
		return s.appendKeys(buf, parent)
	}
	return s.appendKeys(buf, x)
}

func (s *tStructT[V]) parkCapture(slot int, pos int) {
	var none tNodeH[V]
	s.park[slot] = none
	if pos < 0 {
		return
	}
	x, _, _, found := s.locate(pos)
	if found {
		s.park[slot] = x
		s.parkN[slot] = x.N()
	}
}

func (s *tStructT[V]) parkObserve(slot int) (gone bool, split bool) {
	x := s.park[slot]
	if x.Nil() {
		return false, false
	}
	n := x.N()
	return n == 0, n > 0 && n <= s.parkN[slot]-tMinKeys
}

// target modes for structure-directed drains
const (
	tgStealRight = iota
	tgStealLeft
	tgMergeLeft
	tgMergeRight
	tgCascade
	tgInternal
	tgSmallestLeaf
	tgModes
)

// targets returns candidate positions whose deletion is likely to exercise the given repair.
func (s *tStructT[V]) targets(mode int, buf []int) []int {
	s.tmode = mode
	s.tbuf = buf[:0]
	root := s.root()
	if root.Nil() || root.N() == 0 {
		return s.tbuf
	}
	if mode == tgSmallestLeaf {
		best := tMaxKeys + 1
		var bestLeaf tNodeH[V]
		s.smallest(root, &best, &bestLeaf)
		if !bestLeaf.Nil() {
			s.tbuf = s.appendKeys(s.tbuf, bestLeaf)
		}
		return s.tbuf
	}
	s.collect(root, true)
	return s.tbuf
}

func (s *tStructT[V]) smallest(x tNodeH[V], best *int, bestLeaf *tNodeH[V]) {
	if x.Child(0).Nil() {
		if x.N() < *best {
			*best, *bestLeaf = x.N(), x
		}
		return
	}
	for i := 0; i <= x.N() && i < x.NumChildSlots(); i++ {
		c := x.Child(i)
		if !c.Nil() {
			s.smallest(c, best, bestLeaf)
		}
	}
}

func (s *tStructT[V]) collect(x tNodeH[V], isRoot bool) {
	if len(s.tbuf) >= 64 || x.Child(0).Nil() {
		return
	}
	n := x.N()
	if s.tmode == tgInternal {
		s.tbuf = s.appendKeys(s.tbuf, x)
	}
	childrenAreLeaves := !x.Child(0).Nil() && x.Child(0).Child(0).Nil()
	for i := 0; i <= n && i < x.NumChildSlots(); i++ {
		c := x.Child(i)
		if c.Nil() {
			continue
		}
		if !childrenAreLeaves {
			s.collect(c, false)
			continue
		}
		if s.tmode == tgInternal || c.N() > tMinKeys {
			continue
		}
		ln, rn := -1, -1
		if i > 0 && !x.Child(i-1).Nil() {
			ln = x.Child(i - 1).N()
		}
		if i < n && !x.Child(i+1).Nil() {
			rn = x.Child(i + 1).N()
		}
		match := false
		switch s.tmode {
		case tgStealRight:
			match = rn > tMinKeys
		case tgStealLeft:
			match = rn <= tMinKeys && ln > tMinKeys
		case tgMergeLeft:
			match = rn <= tMinKeys && ln >= 0 && ln <= tMinKeys
		case tgMergeRight:
			match = ln < 0 && rn >= 0 && rn <= tMinKeys
		case tgCascade:
			match = rn <= tMinKeys && ln <= tMinKeys && !isRoot && n <= tMinKeys
		}
		if match {
			keys := c.Keys()
			cn := c.N()
			if cn > 0 && cn <= len(keys) {
				s.tbuf = append(s.tbuf, s.w.posOf(keys[0]), s.w.posOf(keys[cn/2]), s.w.posOf(keys[cn-1]))
			}
		}
	}
}
