package worlds

import "math/bits"

// Reference model of the `tree` world: an ideal sorted map. Written independently of juniper (this
// file imports nothing from it). Keys are identified by their *position* in the collection's order
// (one position per equivalence class of the comparator); the world maps keys to positions. The model
// is a sorted array indexed by position with a bitmap for successor/predecessor queries.

// tval is the value type stored in Maps. It contains a pointer so that it is never served by the
// tiny allocator (weak pointers to tiny objects are not cleared reliably).
type tval struct {
	id   int
	self *tval
}

type tEntry struct {
	val      *tval // current value (Maps)
	ins      int   // event number at which the position last became present
	reps     uint8 // bit i: representative i of the class was put since the position became present
	ever     bool  // was ever present in this run
	everReps uint8 // representatives ever put at this position in this run
}

type tModel struct {
	P       int // number of positions
	ent     []tEntry
	bits    []uint64
	n       int
	everCnt int // distinct positions ever present
}

func newTModel(P int) *tModel {
	return &tModel{P: P, ent: make([]tEntry, P), bits: make([]uint64, (P+63)/64)}
}

func (m *tModel) has(pos int) bool {
	if pos < 0 || pos >= m.P {
		return false
	}
	return m.bits[pos>>6]&(1<<(uint(pos)&63)) != 0
}

// put stores val under pos; rep is the representative index of the key used. Returns whether the
// position was present before and the value it had.
func (m *tModel) put(pos, rep int, val *tval, ev int) (was bool, old *tval) {
	e := &m.ent[pos]
	if m.has(pos) {
		old = e.val
		e.val = val
		e.reps |= 1 << uint(rep)
		e.everReps |= 1 << uint(rep)
		return true, old
	}
	m.bits[pos>>6] |= 1 << (uint(pos) & 63)
	m.n++
	if !e.ever {
		e.ever = true
		m.everCnt++
	}
	e.val = val
	e.ins = ev
	e.reps = 1 << uint(rep)
	e.everReps |= 1 << uint(rep)
	return false, nil
}

func (m *tModel) del(pos int) (was bool, old *tval) {
	if !m.has(pos) {
		return false, nil
	}
	e := &m.ent[pos]
	old = e.val
	e.val = nil
	e.reps = 0
	m.bits[pos>>6] &^= 1 << (uint(pos) & 63)
	m.n--
	return true, old
}

// succ returns the smallest present position > pos, or P when there is none. pos may be -1.
func (m *tModel) succ(pos int) int {
	p := pos + 1
	if p < 0 {
		p = 0
	}
	if p >= m.P {
		return m.P
	}
	w := p >> 6
	x := m.bits[w] >> (uint(p) & 63) << (uint(p) & 63)
	for {
		if x != 0 {
			return w<<6 + bits.TrailingZeros64(x)
		}
		w++
		if w >= len(m.bits) {
			return m.P
		}
		x = m.bits[w]
	}
}

// pred returns the largest present position < pos, or -1 when there is none. pos may be P.
func (m *tModel) pred(pos int) int {
	p := pos - 1
	if p >= m.P {
		p = m.P - 1
	}
	if p < 0 {
		return -1
	}
	w := p >> 6
	sh := 63 - (uint(p) & 63)
	x := m.bits[w] << sh >> sh
	for {
		if x != 0 {
			return w<<6 + 63 - bits.LeadingZeros64(x)
		}
		w--
		if w < 0 {
			return -1
		}
		x = m.bits[w]
	}
}

// nth returns the position of the i-th present key (0-based), or -1.
func (m *tModel) nth(i int) int {
	if i < 0 || i >= m.n {
		return -1
	}
	for w, x := range m.bits {
		c := bits.OnesCount64(x)
		if i >= c {
			i -= c
			continue
		}
		for ; i > 0; i-- {
			x &= x - 1
		}
		return w<<6 + bits.TrailingZeros64(x)
	}
	return -1
}

// countIn returns the number of present positions in [lo, hi].
func (m *tModel) countIn(lo, hi int) int {
	if lo < 0 {
		lo = 0
	}
	if hi >= m.P {
		hi = m.P - 1
	}
	c := 0
	for p := m.succ(lo - 1); p <= hi && p < m.P; p = m.succ(p) {
		c++
	}
	return c
}

// tDepthBound is the property's bound on the number of levels of a tree with n >= 1 keys:
// 1 + floor(log8((n+1)/2)), i.e. the largest d with 2*8^(d-1) <= n+1.
func tDepthBound(n int) int {
	d := 1
	for p := 16; p <= n+1; p *= 8 {
		d++
	}
	return d
}
