package worlds

import (
	"fmt"
	"sort"

	"github.com/bradenaw/juniper/container/tree"
	"github.com/bradenaw/juniper/iterator"
)

// treeOddKeys is a small side scenario of the tree world (1 run in 12 under C01/C02): the same kind
// of history, checked against a plain sorted model, but over a key type the main scenario cannot
// have: slices. A slice key is not comparable at run time (comparing two of them through an interface
// panics), and its zero value (nil) is a key the user's order function cannot look at - like a nil
// pointer key. So a library that compares keys other than through the user's order, or that hands
// the order function the content of a vacated slot, fails here and nowhere else.
func treeOddKeys(r *R) {
	r.Probe("odd-key-type")
	const space = 48
	mk := func(k int) []int { return []int{k, k * 7} }
	less := func(a, b []int) bool { return a[0] < b[0] } // panics on the zero value, as a pointer key would
	cmp := func(a, b []int) int { return a[0] - b[0] }
	var m tree.Map[[]int, int]
	if r.Choose(2, "odd-cmp") == 0 {
		m = tree.NewMap[[]int, int](less)
	} else {
		m = tree.NewMapCmp[[]int, int](cmp)
	}
	model := map[int]int{}
	keys := func() []int {
		ks := make([]int, 0, len(model))
		for k := range model {
			ks = append(ks, k)
		}
		sort.Ints(ks)
		return ks
	}
	prop := r.Focus
	fail := func(sig, format string, args ...any) {
		r.Violate(prop, "oddkeys/"+sig, format, args...)
	}
	guard := func(op string, f func()) (ok bool) {
		defer func() {
			if p := recover(); p != nil {
				passThrough(p)
				fail("panic/"+op, "%s panicked with slice keys: %v", op, p)
				ok = false
			}
		}()
		f()
		return true
	}
	type liveIter struct {
		it      iterator.Iterator[tree.KVPair[[]int, int]]
		rev     bool
		last    int
		started bool
		done    bool
	}
	var live *liveIter
	nv := 0
	steps := 20 + r.Choose(60, "odd-steps")
	fill := r.Choose(3, "odd-fill") * 14 // 0, 14 or 28 keys up front: one leaf, or several nodes
	for i := 0; i < fill && !r.Failed(); i++ {
		k := (i * 5) % space
		nv++
		v := nv
		if !guard("Put", func() { m.Put(mk(k), v) }) {
			return
		}
		model[k] = v
	}
	for s := 0; s < steps && !r.Failed(); s++ {
		r.Ops++
		k := r.Choose(space, "odd-key")
		switch op := r.Choose(10, "odd-op"); op {
		case 0, 1:
			nv++
			v := nv
			if !guard("Put", func() { m.Put(mk(k), v) }) {
				return
			}
			model[k] = v
			r.Hist("put", k)
		case 2:
			if live != nil && live.started && !live.done && r.Choose(2, "odd-del-parked") == 1 {
				// the key after (before) the one the iterator yielded last is the one it is parked on
				ks := keys()
				for _, x := range ks {
					if !live.rev && x > live.last {
						k = x
						break
					}
					if live.rev && x < live.last {
						k = x // ends up as the largest key below the last one yielded
					}
				}
				r.Probe("odd-delete-parked-key")
			}
			if !guard("Delete", func() { m.Delete(mk(k)) }) {
				return
			}
			delete(model, k)
			r.Hist("del", k)
		case 3:
			var got int
			if !guard("Get", func() { got = m.Get(mk(k)) }) {
				return
			}
			if got != model[k] {
				fail("get", "Get(%d) = %d, the model says %d", k, got, model[k])
				return
			}
		case 4:
			var got bool
			if !guard("Contains", func() { got = m.Contains(mk(k)) }) {
				return
			}
			if _, want := model[k]; got != want {
				fail("contains", "Contains(%d) = %v, the model says %v", k, got, want)
				return
			}
			var l int
			if !guard("Len", func() { l = m.Len() }) {
				return
			}
			if l != len(model) {
				fail("len", "Len() = %d, the model holds %d keys", l, len(model))
				return
			}
		case 5:
			var fk, lk []int
			var fv, lv int
			if !guard("First/Last", func() { fk, fv = m.First(); lk, lv = m.Last() }) {
				return
			}
			ks := keys()
			if len(ks) == 0 {
				if fk != nil || lk != nil || fv != 0 || lv != 0 {
					fail("first-last", "First/Last on an empty map returned (%v,%d) (%v,%d)", fk, fv, lk, lv)
					return
				}
			} else if len(fk) == 0 || len(lk) == 0 || fk[0] != ks[0] || lk[0] != ks[len(ks)-1] || fv != model[ks[0]] || lv != model[ks[len(ks)-1]] {
				fail("first-last", "First/Last = (%v,%d) (%v,%d), the model's extremes are %d and %d", fk, fv, lk, lv, ks[0], ks[len(ks)-1])
				return
			}
		case 6:
			// a bounded scan, collected at once, in either direction
			lo, hi := r.Choose(space, "odd-lo"), r.Choose(space, "odd-hi")
			rev := r.Choose(2, "odd-rev") == 1
			var got []int
			ok := guard("Range", func() {
				var it iterator.Iterator[tree.KVPair[[]int, int]]
				if rev {
					it = m.RangeReverse(tree.Included(mk(lo)), tree.Excluded(mk(hi)))
				} else {
					it = m.Range(tree.Included(mk(lo)), tree.Excluded(mk(hi)))
				}
				for n := 0; n < 2*space; n++ {
					kv, more := it.Next()
					if !more {
						break
					}
					if len(kv.Key) != 2 || kv.Value != model[kv.Key[0]] {
						fail("range-pair", "a range yielded (%v, %d); the model pairs that key with %d", kv.Key, kv.Value, model[kv.Key[0]])
						return
					}
					got = append(got, kv.Key[0])
				}
				if _, more := it.Next(); more {
					fail("range-not-sticky", "a range yielded an item after it had reported exhaustion")
				}
			})
			if !ok || r.Failed() {
				return
			}
			var want []int
			for _, x := range keys() {
				if x >= lo && x < hi {
					want = append(want, x)
				}
			}
			if rev {
				sort.Sort(sort.Reverse(sort.IntSlice(want)))
			}
			if fmt.Sprint(got) != fmt.Sprint(want) {
				fail("range", "Range[%d,%d) rev=%v yielded %v, the model says %v", lo, hi, rev, got, want)
				return
			}
		case 7:
			rev := r.Choose(2, "odd-rev") == 1
			live = &liveIter{rev: rev}
			if !guard("Iterate", func() {
				if rev {
					live.it = m.RangeReverse(tree.Unbounded[[]int](), tree.Unbounded[[]int]())
				} else {
					live.it = m.Iterate()
				}
			}) {
				return
			}
		default:
			if live == nil {
				continue
			}
			var kv tree.KVPair[[]int, int]
			var more bool
			if !guard("iterator Next (the map was modified between calls)", func() { kv, more = live.it.Next() }) {
				return
			}
			if !more {
				live.done = true
				continue
			}
			if live.done {
				fail("iter-item-after-exhaustion", "a live iterator yielded %v after it had reported exhaustion", kv.Key)
				return
			}
			if len(kv.Key) != 2 {
				fail("iter-garbage-key", "a live iterator yielded the key %v", kv.Key)
				return
			}
			x := kv.Key[0]
			if v, held := model[x]; !held || v != kv.Value {
				fail("iter-pair", "a live iterator yielded (%d, %d); the model holds %v for that key (held=%v)", x, kv.Value, v, held)
				return
			}
			if live.started && ((!live.rev && x <= live.last) || (live.rev && x >= live.last)) {
				fail("iter-not-monotone", "a live iterator yielded %d after %d (reverse=%v)", x, live.last, live.rev)
				return
			}
			live.started, live.last = true, x
			r.Hist("next", x)
		}
	}
}
