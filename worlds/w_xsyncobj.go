package worlds

import (
	"fmt"
	"math"
	"sort"
	stdsync "sync"

	"github.com/anishathalye/porcupine"
	"github.com/bradenaw/juniper/xsync"

	"verifsim/sim"
)

// World `xsyncobj` (C18): Watchable (setters/observers, porcupine register model + channel oracle),
// Future (Fill racing Wait/WaitContext), Lazy (concurrent first calls), xsync.Map (differential
// against sync.Map; no schedule dimension).

func init() {
	Register(&World{Name: "xsyncobj", Episodes: true, Props: []string{"C18"}, Concurrent: true, MaxSteps: 6000, Run: xsyncobjWorld})
	ExpectedProbes["xsyncobj"] = []string{"watchable-value-before-first-set", "watchable-value-racing-first-set", "watchable-observer-woken", "future-wait-before-fill", "future-wait-after-fill", "future-waitcontext-cancelled", "future-later-waiter-dead-context", "lazy-concurrent-first-calls", "map-absent-key", "map-nil-interface-value", "porcupine-checked"}
}

func xsyncobjWorld(r *R) {
	switch r.Choose(7, "scenario") {
	case 6:
		watchableEqualValues(r)
	case 0, 1, 2:
		watchableScenario(r)
	case 3:
		futureScenario(r)
	case 4:
		lazyScenario(r)
	default:
		mapScenario(r)
	}
}

type regIn struct {
	set bool
	v   int
}

var registerModel = porcupine.Model{
	Init: func() interface{} { return 0 },
	Step: func(state, input, output interface{}) (bool, interface{}) {
		in := input.(regIn)
		if in.set {
			return true, in.v
		}
		return output.(int) == state.(int), state
	},
	DescribeOperation: func(input, output interface{}) string {
		in := input.(regIn)
		if in.set {
			return fmt.Sprintf("Set(%d)", in.v)
		}
		return fmt.Sprintf("Value() -> %d", output.(int))
	},
}

func watchableScenario(r *R) {
	var w xsync.Watchable[int]
	nset := r.Choose(3, "setters") + 1
	nobs := r.Choose(3, "observers") + 1
	cs := &Calls{r: r}
	type seen struct {
		v  int
		ch chan struct{}
	}
	var observed []seen
	setsPer := make([]int, nset)
	anySetReturned := false
	for s := 0; s < nset; s++ {
		s := s
		setsPer[s] = r.Choose(3, "nsets")
		pace := r.Choose(4, "setter-pace")
		sim.GoNamed(fmt.Sprintf("setter%d", s), func() {
			for j := 0; j < setsPer[s]; j++ {
				Spin(pace, "setter-pace")
				v := (s+1)*100 + j
				c := cs.Begin(fmt.Sprintf("setter%d", s), "Set", v, nil)
				w.Set(v)
				cs.End(c, v, true, nil)
				anySetReturned = true
			}
		})
	}
	last := make([]seen, nobs)
	obsTasks := make([]*sim.Task, nobs)
	for o := 0; o < nobs; o++ {
		o := o
		pace := r.Choose(4, "observer-pace")
		obsTasks[o] = sim.GoNamed(fmt.Sprintf("observer%d", o), func() {
			for k := 0; k < 12; k++ {
				Spin(pace, "observer-pace")
				c := cs.Begin(fmt.Sprintf("observer%d", o), "Value", k, nil)
				pendingSets := false
				for _, x := range cs.All {
					if x.Kind == "Set" && !x.Returned {
						pendingSets = true
					}
				}
				v, ch := w.Value()
				cs.End(c, v, true, nil)
				if v == 0 {
					r.Probe("watchable-value-before-first-set")
					if pendingSets || anySetReturned {
						r.Probe("watchable-value-racing-first-set")
					}
				}
				if ch == nil {
					r.Violate("C18", "watchable/nil-channel", "Value returned a nil channel")
					return
				}
				observed = append(observed, seen{v, ch})
				last[o] = seen{v, ch}
				sim.Self().Label = fmt.Sprintf("observer%d waiting for a change of %d", o, v)
				sim.Recv(ch, "observer-wait")
				sim.Self().Label = ""
				r.Probe("watchable-observer-woken")
			}
		})
	}
	sim.WaitStuck("watchable-phase1")
	if r.Failed() {
		return
	}
	for _, c := range cs.Pending() {
		r.Violate("C18", "watchable/stuck/"+c.Kind, "%s never returns: %v", c.Kind, c)
		return
	}
	final, fch := w.Value()
	select {
	case <-fch:
		r.Violate("C18", "watchable/latest-channel-closed", "no Set is in flight, Value returned %d, but its channel is already closed", final)
		return
	default:
	}
	for _, s := range observed {
		closed := false
		select {
		case <-s.ch:
			closed = true
		default:
		}
		if closed != (s.v != final) {
			if closed {
				r.Violate("C18", "watchable/channel-closed-without-newer-set", "the channel returned with value %d (the latest value) is closed", s.v)
			} else {
				r.Violate("C18", "watchable/channel-not-closed", "the channel returned with stale value %d is still open although the latest value is %d", s.v, final)
			}
			return
		}
	}
	for o := range last {
		if !obsTasks[o].Done() && last[o].v != final {
			r.Violate("C18", "watchable/observer-missed-final-value", "observer%d is parked having last seen %d, but the final value is %d", o, last[o].v, final)
			return
		}
	}
	// linearizability of the register part, checked outside the bubble
	var ops []porcupine.Operation
	for i, c := range cs.All {
		switch c.Kind {
		case "Set":
			ops = append(ops, porcupine.Operation{ClientId: i, Input: regIn{set: true, v: c.Arg}, Call: int64(c.Inv), Output: 0, Return: int64(c.Ret)})
		case "Value":
			ops = append(ops, porcupine.Operation{ClientId: i, Input: regIn{}, Call: int64(c.Inv), Output: c.Val, Return: int64(c.Ret)})
		}
	}
	ops = append(ops, porcupine.Operation{ClientId: len(ops), Input: regIn{}, Call: 1 << 40, Output: final, Return: 1<<40 + 1})
	if len(ops) <= 48 {
		r.PostRun = func() {
			r.Probe("porcupine-checked")
			if !porcupine.CheckOperations(registerModel, ops) {
				r.Violate("C18", "watchable/not-linearizable", "the Set/Value history is not linearizable as a register: %s", describeOps(ops))
			}
		}
	}
}

func describeOps(ops []porcupine.Operation) string {
	s := ""
	for _, o := range ops {
		s += fmt.Sprintf("[%d,%d] %s; ", o.Call, o.Return, registerModel.DescribeOperation(o.Input, o.Output))
	}
	return s
}

func futureScenario(r *R) {
	f := xsync.NewFuture[int]()
	root := NewCtx(nil, "root")
	cs := &Calls{r: r}
	nw := 1 + r.Choose(4, "waiters")
	fillSpin := r.Choose(10, "fill-spin")
	doFill := r.Choose(6, "fill") != 5
	const val = 4242
	filled := false
	fillReturned := false
	var cancellable []*Ctx
	for i := 0; i < nw; i++ {
		i := i
		kind := r.Choose(4, "wkind") // 0 Wait, 1 WaitContext live, 2 WaitContext cancellable, 3 WaitContext pre-cancelled
		if !doFill && kind == 0 {
			kind = 2
		}
		pace := r.Choose(12, "wpace")
		var ctx *Ctx
		switch kind {
		case 1:
			ctx = root
		case 2:
			ctx = NewCtx(root, fmt.Sprintf("w%d", i))
			if r.Choose(5, "own-err") == 4 {
				// the caller's own Context implementation, whose Err() is a value of its own
				ctx.OwnErr()
				r.Probe("future-waiter-context-with-own-error-value")
			}
			cancellable = append(cancellable, ctx)
		case 3:
			if r.Choose(3, "dead-by-deadline") == 2 {
				ctx = PastDeadline(root, fmt.Sprintf("w%d", i)) // ended by a deadline already in the past
			} else {
				ctx = PreCancelled(root, fmt.Sprintf("w%d", i))
			}
			r.Fault("ctx_precancelled")
		}
		sim.GoNamed(fmt.Sprintf("waiter%d", i), func() {
			Spin(pace, "waiter-pace")
			if filled {
				r.Probe("future-wait-after-fill")
			} else {
				r.Probe("future-wait-before-fill")
			}
			if kind == 0 {
				c := cs.Begin(fmt.Sprintf("waiter%d", i), "Wait", i, nil)
				v := f.Wait()
				cs.End(c, v, true, nil)
				if v != val {
					r.Violate("C18", "future/wrong-value", "Wait returned %d, the future was filled with %d", v, val)
				}
				return
			}
			c := cs.Begin(fmt.Sprintf("waiter%d", i), "WaitContext", i, ctx)
			laterWaiter := fillReturned
			if laterWaiter && ctx.Dead() {
				r.Probe("future-later-waiter-dead-context")
			}
			v, err := f.WaitContext(ctx.C)
			cs.End(c, v, err == nil, err)
			if err != nil && laterWaiter {
				// "delivers the single value it was filled with to all earlier and later waiters";
				// WaitContext: "returns immediately if f is already filled" - whatever its context
				r.Violate("C18", "future/later-waiter-not-served", "Fill had returned before this WaitContext was called, yet it returned (%d, %v) instead of the value", v, err)
				return
			}
			if err != nil {
				if !ctx.Dead() || err != ctx.C.Err() {
					r.Violate("C18", "future/wrong-error", "WaitContext returned %v although its context's error is %v", err, ctx.C.Err())
				}
				if v != 0 {
					r.Violate("C18", "future/partial-value", "WaitContext returned (%d, %v)", v, err)
				}
				r.Probe("future-waitcontext-cancelled")
				return
			}
			if v != val {
				r.Violate("C18", "future/wrong-value", "WaitContext returned %d, the future was filled with %d", v, val)
			}
			if !filled {
				r.Violate("C18", "future/value-before-fill", "WaitContext returned a value before Fill was called")
			}
		})
	}
	if doFill {
		sim.GoNamed("filler", func() {
			Spin(fillSpin, "filler-pace")
			c := cs.Begin("filler", "Fill", val, nil)
			filled = true
			f.Fill(val)
			cs.End(c, val, true, nil)
			fillReturned = true
		})
	}
	if len(cancellable) > 0 {
		sim.GoNamed("canceller", func() {
			for _, c := range cancellable {
				Spin(r.Choose(8, "cancel-spin"), "canceller-pace")
				r.Fault("ctx_cancel_midcall")
				c.Cancel()
			}
		})
	}
	sim.WaitStuck("future-phase1")
	if r.Failed() {
		return
	}
	for _, c := range cs.Pending() {
		if c.Kind == "WaitContext" && !c.Ctx.Dead() && !doFill {
			continue // legitimately waiting for a Fill that never comes
		}
		r.Violate("C18", "future/stuck/"+c.Kind, "%s never returns (filled=%v): %v", c.Kind, filled, c)
		return
	}
	// a second Fill is documented to panic - and must leave the value alone
	if doFill && r.Choose(3, "second-fill") == 2 {
		r.Probe("future-second-fill")
		panicked := false
		func() {
			defer func() {
				if p := recover(); p != nil {
					passThrough(p)
					if p == sim.Killed {
						panic(p)
					}
					panicked = true
				}
			}()
			f.Fill(val + 1)
		}()
		r.Hist("second-fill", panicked)
		if !panicked {
			r.Violate("C18", "future/second-fill-no-panic", "a second Fill returned normally; the documentation says it panics")
			return
		}
		if v, err := f.WaitContext(root.C); v != val || err != nil {
			r.Violate("C18", "future/value-changed/after-second-fill", "the future was filled with %d; after a second Fill(%d), which panicked as documented, WaitContext returns (%d, %v)", val, val+1, v, err)
			return
		}
	}
	// later waiters get the same value, for ever
	if doFill {
		if v := f.Wait(); v != val {
			r.Violate("C18", "future/value-changed", "a later Wait returned %d, the future was filled with %d", v, val)
		}
	}
	root.Cancel()
	sim.WaitStuck("future-phase2")
	for _, c := range cs.Pending() {
		r.Violate("C18", "future/stuck/"+c.Kind+"/ctx-expired", "%s never returns although its context ended: %v", c.Kind, c)
	}
}

type lazyBoom struct{}

func lazyScenario(r *R) {
	ncall := 1 + r.Choose(4, "callers")
	runs := 0
	slow := r.Choose(3, "slow-init")
	if r.Choose(4, "lazy-panics") == 3 {
		lazyPanicScenario(r, ncall, slow)
		return
	}
	lazy := xsync.Lazy(func() int {
		runs++
		Spin(slow, "lazy-init")
		return 7000 + runs
	})
	if ncall >= 2 {
		r.Probe("lazy-concurrent-first-calls")
	}
	results := make([]int, ncall)
	done := 0
	for i := 0; i < ncall; i++ {
		i := i
		pace := r.Choose(4, "caller-pace")
		sim.GoNamed(fmt.Sprintf("caller%d", i), func() {
			Spin(pace, "caller-pace")
			sim.Self().Label = "lazy()"
			results[i] = lazy()
			sim.Self().Label = ""
			r.Hist("lazy", results[i])
			results[i] = lazy() + 0*results[i]
			done++
		})
	}
	sim.WaitStuck("lazy-phase1")
	if r.Failed() {
		return
	}
	if done != ncall {
		r.Violate("C18", "lazy/stuck", "only %d of %d callers returned: %v", done, ncall, sim.TaskStates())
		return
	}
	if runs != 1 {
		r.Violate("C18", "lazy/ran-not-once", "the function ran %d times", runs)
		return
	}
	for i, v := range results {
		if v != 7001 {
			r.Violate("C18", "lazy/wrong-result", "caller %d got %d, the function returned 7001", i, v)
			return
		}
	}
}

// lazyPanicScenario: the function panics. It still runs only once, nobody gets stuck, and a caller
// that does see a panic sees the function's own.
func lazyPanicScenario(r *R, ncall, slow int) {
	r.Probe("lazy-function-panics")
	runs := 0
	lazy := xsync.Lazy(func() int {
		runs++
		Spin(slow, "lazy-init")
		panic(lazyBoom{})
	})
	done := 0
	for i := 0; i < ncall; i++ {
		i := i
		pace := r.Choose(4, "caller-pace")
		sim.GoNamed(fmt.Sprintf("caller%d", i), func() {
			Spin(pace, "caller-pace")
			for round := 0; round < 2; round++ {
				var got int
				var pv any
				panicked := false
				func() {
					defer func() {
						if p := recover(); p != nil {
							passThrough(p)
							if p == sim.Killed {
								panic(p)
							}
							panicked, pv = true, p
						}
					}()
					got = lazy()
				}()
				r.Hist("lazy-panic", i, round, panicked)
				if !panicked {
					// What a caller gets when the function panicked is not part of the statement
					// ("gives every caller that result" - there is none). The library's own variant
					// for older Go releases (xsync_old.go, sync.Once) hands later callers the zero
					// value, the sync.OnceValue variant re-panics; both are accepted.
					_ = got
					continue
				}
				if _, ok := pv.(lazyBoom); !ok {
					r.Violate("C18", "lazy/wrong-panic", "caller %d got panic %v, the function panicked with lazyBoom", i, pv)
					return
				}
			}
			done++
		})
	}
	sim.WaitStuck("lazy-panic-phase")
	if r.Failed() {
		return
	}
	if done != ncall {
		r.Violate("C18", "lazy/stuck", "only %d of %d callers returned: %v", done, ncall, sim.TaskStates())
		return
	}
	if runs != 1 {
		r.Violate("C18", "lazy/ran-not-once", "the (panicking) function ran %d times", runs)
	}
}

// watchableEqualValues: a Set counts as a later Set whatever value it carries - the same value again,
// a distinct pointer to equal contents, or the zero value as the very first Set.
func watchableEqualValues(r *R) {
	r.Probe("watchable-equal-values")
	closed := func(ch chan struct{}) bool {
		select {
		case <-ch:
			return true
		default:
			return false
		}
	}
	switch r.Choose(3, "equal-kind") {
	case 0:
		var w xsync.Watchable[int]
		v0, ch0 := w.Value()
		if v0 != 0 || closed(ch0) {
			r.Violate("C18", "watchable/initial", "before any Set Value() = (%d, closed=%v)", v0, closed(ch0))
			return
		}
		w.Set(0) // the first Set carries the zero value
		if !closed(ch0) {
			r.Violate("C18", "watchable/channel-not-closed/equal-value", "Value() was called before the first Set; Set(0) - the zero value - did not close its channel")
			return
		}
		n := 1 + r.Choose(3, "repeats")
		for i := 0; i < n; i++ {
			v, ch := w.Value()
			if v != 0 || closed(ch) {
				r.Violate("C18", "watchable/value", "Value() = (%d, closed=%v) after Set(0)", v, closed(ch))
				return
			}
			w.Set(0)
			if !closed(ch) {
				r.Violate("C18", "watchable/channel-not-closed/equal-value", "Set(0) after Set(0): the channel handed out in between was not closed")
				return
			}
		}
	case 1:
		var w xsync.Watchable[string]
		w.Set("a")
		_, ch := w.Value()
		w.Set("a")
		if !closed(ch) {
			r.Violate("C18", "watchable/channel-not-closed/equal-value", "Set(\"a\") twice: the channel handed out in between was not closed")
			return
		}
		if v, _ := w.Value(); v != "a" {
			r.Violate("C18", "watchable/value", "Value() = %q after Set(\"a\")", v)
		}
	default:
		type box struct{ n int }
		var w xsync.Watchable[*box]
		p1, p2 := &box{5}, &box{5}
		w.Set(p1)
		_, ch := w.Value()
		w.Set(p2) // a different pointer to equal contents
		if !closed(ch) {
			r.Violate("C18", "watchable/channel-not-closed/equal-value", "Set of a distinct pointer to equal contents did not close the channel handed out before it")
			return
		}
		if v, _ := w.Value(); v != p2 {
			r.Violate("C18", "watchable/value", "Value() does not return the pointer most recently Set")
		}
	}
}

// ---- xsync.Map versus sync.Map ------------------------------------------------------------------

type ptrT struct{ n int }

func mapScenario(r *R) {
	if r.Choose(4, "map-concurrent") == 3 {
		mapConcurrent(r)
		return
	}
	if r.Choose(5, "ktype") == 4 {
		// interface-typed keys, one of them the nil interface (sync.Map accepts it)
		r.Probe("map-interface-keys")
		keys := []any{nil, 1, "k"}
		if r.Choose(2, "vtype") == 0 {
			mapDiff[any, int](r, "any", "int", keys, []int{0, 1, 2, 3})
		} else {
			mapDiff[any, any](r, "any", "any", keys, []any{nil, 1, "x", 2.5, 0.0, math.Copysign(0, -1)})
		}
		return
	}
	keys := []int{0, 1, 2}
	switch r.Choose(5, "vtype") {
	case 0:
		mapDiff[int, int](r, "int", "int", keys, []int{0, 1, 2, 3})
	case 1:
		mapDiff[int, string](r, "int", "string", keys, []string{"", "a", "b", "c"})
	case 2:
		p1, p2 := &ptrT{1}, &ptrT{2}
		mapDiff[int, *ptrT](r, "int", "ptr", keys, []*ptrT{nil, p1, p2, p1})
	case 3:
		e1, e2 := NewErr("m1"), NewErr("m2")
		mapDiff[int, error](r, "int", "error", keys, []error{nil, e1, e2, e1})
	default:
		mapDiff[int, any](r, "int", "any", keys, []any{nil, 1, "x", 2.5, 0.0, math.Copysign(0, -1)})
	}
}

func mapDiff[K comparable, V any](r *R, kname, vname string, keys []K, vals []V) {
	var m xsync.Map[K, V]
	var ref stdsync.Map
	nops := 4 + r.Choose(24, "nops")
	eq := func(a, b any) bool {
		// (what was stored is what comes back: +0.0 and -0.0 are equal but not the same value)
		if fa, ok := a.(float64); ok {
			if fb, ok := b.(float64); ok {
				return math.Float64bits(fa) == math.Float64bits(fb)
			}
		}
		return a == b
	}
	isNilIface := func(v V) bool { return any(v) == nil }
	call := func(op string, key K, f func() (any, bool, bool), g func() (any, bool)) bool {
		// f: xsync (value, flag, -), g: sync
		_, wasPresent := ref.Load(key)
		hasValue := op != "CompareAndSwap" && op != "CompareAndDelete"
		var xv any
		var xf, panicked bool
		var pval any
		func() {
			defer func() {
				if p := recover(); p != nil {
					passThrough(p)
					panicked = true
					pval = p
				}
			}()
			xv, xf, _ = f()
		}()
		sv, sf := g()
		r.Hist(op, fmt.Sprint(key), fmt.Sprint(xv), xf, panicked)
		if panicked {
			r.Logf("%s(%v) on xsync.Map[%s,%s] PANICKED: %v   sync.Map: (%v, %v)", op, key, kname, vname, pval, sv, sf)
			kind := "present-key"
			if !wasPresent && (op == "Swap" || op == "Load" || op == "LoadAndDelete") {
				kind = "absent-key"
			} else if sv == nil {
				kind = "nil-interface-value"
			}
			r.Violate("C18", "map/panic/"+op+"/"+kind, "xsync.Map[%s,%s].%s(%v) panicked (%v) where sync.Map returns (%v, %v)", kname, vname, op, key, pval, sv, sf)
			return false
		}
		r.Logf("%s(%v) on xsync.Map[%s,%s] -> (%v, %v)   sync.Map: (%v, %v)", op, key, kname, vname, xv, xf, sv, sf)
		want := sv
		if sv == nil {
			var zero V
			want = any(zero)
		}
		if xf != sf || (hasValue && !eq(xv, want)) {
			r.Violate("C18", "map/differs/"+op, "xsync.Map[%s,%s].%s(%v) returned (%v, %v), sync.Map returned (%v, %v)", kname, vname, op, key, xv, xf, sv, sf)
			return false
		}
		return true
	}
	for i := 0; i < nops && !r.Failed(); i++ {
		key := keys[r.Choose(len(keys), "key")]
		v := vals[r.Choose(len(vals), "val")]
		v2 := vals[r.Choose(len(vals), "val2")]
		if _, ok := ref.Load(key); !ok {
			r.Probe("map-absent-key")
		}
		if isNilIface(v) {
			r.Probe("map-nil-interface-value")
		}
		switch r.Choose(11, "op") {
		case 0:
			m.Store(key, v)
			ref.Store(key, v)
			r.Logf("Store(%v, %v)", key, v)
		case 1:
			call("Load", key, func() (any, bool, bool) { a, b := m.Load(key); return a, b, false }, func() (any, bool) { return ref.Load(key) })
		case 2:
			call("LoadOrStore", key, func() (any, bool, bool) { a, b := m.LoadOrStore(key, v); return a, b, false }, func() (any, bool) { return ref.LoadOrStore(key, v) })
		case 3:
			call("LoadAndDelete", key, func() (any, bool, bool) { a, b := m.LoadAndDelete(key); return a, b, false }, func() (any, bool) { return ref.LoadAndDelete(key) })
		case 4:
			m.Delete(key)
			ref.Delete(key)
			r.Logf("Delete(%v)", key)
		case 5:
			call("Swap", key, func() (any, bool, bool) { a, b := m.Swap(key, v); return a, b, false }, func() (any, bool) { return ref.Swap(key, v) })
		case 6:
			if vname == "any" || vname == "error" {
				// CompareAndSwap panics in sync.Map itself for incomparable old values; all ours are comparable
			}
			call("CompareAndSwap", key, func() (any, bool, bool) { b := m.CompareAndSwap(key, v, v2); return nil, b, false }, func() (any, bool) { return nil, ref.CompareAndSwap(key, v, v2) })
		case 7:
			call("CompareAndDelete", key, func() (any, bool, bool) { b := m.CompareAndDelete(key, v); return nil, b, false }, func() (any, bool) { return nil, ref.CompareAndDelete(key, v) })
		case 9:
			// Range whose callback modifies the map, in two ways whose outcome does not depend on
			// the (randomised) iteration order: on its first call it deletes every other key, or
			// overwrites every key.
			kind := r.Choose(2, "range-mutation")
			if kind == 1 {
				// the overwriting value must be one no key holds at present, so that "stale" does
				// not depend on which key happens to come first
				fresh := false
				for _, cand := range vals {
					held := false
					ref.Range(func(_, cur any) bool {
						if cur == any(cand) {
							held = true
						}
						return !held
					})
					if !held {
						v2, fresh = cand, true
						break
					}
				}
				if !fresh {
					kind = 0
				}
			}
			run := func(rng func(func(k, v any) bool), del func(k any), put func(k any)) (calls int, stale int) {
				first := true
				var firstKey any
				rng(func(k, v any) bool {
					calls++
					if first {
						first, firstKey = false, k
						for _, o := range keys {
							if any(o) == firstKey {
								continue
							}
							if kind == 0 {
								del(any(o))
							} else {
								put(any(o))
							}
						}
					} else if kind == 1 && v != any(v2) {
						stale++
					}
					return true
				})
				return
			}
			panicked := false
			var pval any
			var xc, xs int
			func() {
				defer func() {
					if p := recover(); p != nil {
						passThrough(p)
						panicked, pval = true, p
					}
				}()
				xc, xs = run(func(f func(k, v any) bool) { m.Range(func(k K, v V) bool { return f(any(k), any(v)) }) },
					func(k any) { kk, _ := k.(K); m.Delete(kk) },
					func(k any) {
						kk, _ := k.(K)
						if _, ok := m.Load(kk); ok {
							m.Store(kk, v2)
						}
					})
			}()
			sc, ss := run(func(f func(k, v any) bool) { ref.Range(f) }, func(k any) { ref.Delete(k) },
				func(k any) {
					if _, ok := ref.Load(k); ok {
						ref.Store(k, v2)
					}
				})
			// which key came first depends on the map's iteration order, which the two maps need
			// not share: bring both to the same contents again
			for _, k := range keys {
				if kind == 0 {
					m.Delete(k)
					ref.Delete(any(k))
				} else if _, ok := ref.Load(any(k)); ok {
					m.Store(k, v2)
					ref.Store(any(k), v2)
				}
			}
			r.Hist("Range-mutating", kind, panicked) // not the counts: under a faulty Range they depend on the map's randomised iteration order
			r.Probe("map-range-callback-modifies")
			if panicked {
				r.Violate("C18", "map/panic/Range/mutating-callback", "xsync.Map[%s,%s].Range panicked (%v) with a callback that modifies the map", kname, vname, pval)
				return
			}
			if xc != sc || xs != ss {
				r.Violate("C18", "map/differs/Range/mutating-callback", "Range with a callback that on its first call %s: xsync.Map called it %d times (%d stale values), sync.Map %d times (%d stale values)", []string{"deletes every other key", "overwrites every key"}[kind], xc, xs, sc, ss)
				return
			}
		default:
			// Range: compare as sorted sets
			var xs, ss []string
			panicked := false
			var pval any
			func() {
				defer func() {
					if p := recover(); p != nil {
						passThrough(p)
						panicked = true
						pval = p
					}
				}()
				m.Range(func(k K, v V) bool { xs = append(xs, fmt.Sprintf("%v=%v", any(k), any(v))); return true })
			}()
			ref.Range(func(k, v any) bool {
				if v == nil {
					var zero V
					v = any(zero)
				}
				ss = append(ss, fmt.Sprintf("%v=%v", k, v))
				return true
			})
			sort.Strings(xs)
			sort.Strings(ss)
			r.Hist("Range", fmt.Sprint(xs), panicked)
			if panicked {
				kind := "nil-interface-value"
				if _, nilKey := ref.Load(nil); nilKey {
					kind = "nil-interface-key"
				}
				r.Violate("C18", "map/panic/Range/"+kind, "xsync.Map[%s,%s].Range panicked (%v); sync.Map yields %v", kname, vname, pval, ss)
				return
			}
			if fmt.Sprint(xs) != fmt.Sprint(ss) {
				r.Violate("C18", "map/differs/Range", "xsync.Map[%s,%s].Range yielded %v, sync.Map %v", kname, vname, xs, ss)
				return
			}
		}
	}
}
