package worlds

import (
	"fmt"

	"github.com/anishathalye/porcupine"
	"github.com/bradenaw/juniper/xsync"

	"verifsim/sim"
)

// mapConcurrent: several tasks use one xsync.Map[int,int] at once. Every method of sync.Map is
// atomic, so the recorded history (stamped with the scheduler's event sequence numbers) must be
// linearizable as a map; every stored value is unique, so each result is attributable to one write.
// State: the value under key 0 and under key 1, 0 = absent.

type mapIn struct {
	op    string
	key   int
	v, v2 int // new value / (old, new) for the compare operations
}

type mapOut struct {
	v  int
	ok bool
}

var typedMapModel = porcupine.Model{
	Init: func() interface{} { return [2]int{} },
	Step: func(state, input, output interface{}) (bool, interface{}) {
		st := state.([2]int)
		in := input.(mapIn)
		out := output.(mapOut)
		cur := st[in.key]
		switch in.op {
		case "Load":
			return out.ok == (cur != 0) && out.v == cur, st
		case "Store":
			st[in.key] = in.v
			return true, st
		case "Delete":
			st[in.key] = 0
			return true, st
		case "LoadOrStore":
			if cur != 0 {
				return out.ok && out.v == cur, st
			}
			st[in.key] = in.v
			return !out.ok && out.v == in.v, st
		case "LoadAndDelete":
			st[in.key] = 0
			return out.ok == (cur != 0) && out.v == cur, st
		case "Swap":
			st[in.key] = in.v
			return out.ok == (cur != 0) && out.v == cur, st
		case "CompareAndSwap":
			if cur != 0 && cur == in.v {
				st[in.key] = in.v2
				return out.ok, st
			}
			return !out.ok, st
		case "CompareAndDelete":
			if cur != 0 && cur == in.v {
				st[in.key] = 0
				return out.ok, st
			}
			return !out.ok, st
		}
		return false, st
	},
	DescribeOperation: func(input, output interface{}) string {
		in := input.(mapIn)
		out := output.(mapOut)
		return fmt.Sprintf("%s(k%d, %d, %d) -> (%d, %v)", in.op, in.key, in.v, in.v2, out.v, out.ok)
	},
}

func mapConcurrent(r *R) {
	r.Probe("map-concurrent-users")
	var m xsync.Map[int, int]
	ntask := 2 + r.Choose(2, "map-tasks")
	var ops []porcupine.Operation
	nextVal := 100
	written := []int{0} // values a compare operation may name (0: never stored)
	done := 0
	for t := 0; t < ntask; t++ {
		t := t
		nops := 1 + r.Choose(4, "map-task-ops")
		ins := make([]mapIn, nops)
		for i := range ins {
			in := mapIn{key: r.Choose(2, "map-key")}
			in.op = []string{"LoadOrStore", "LoadOrStore", "Load", "Store", "Delete", "LoadAndDelete", "Swap", "CompareAndSwap", "CompareAndDelete"}[r.Choose(9, "map-op")]
			switch in.op {
			case "LoadOrStore", "Store", "Swap":
				nextVal++
				in.v = nextVal
				written = append(written, in.v)
			case "CompareAndSwap":
				in.v = written[r.Choose(len(written), "map-old")]
				nextVal++
				in.v2 = nextVal
				written = append(written, in.v2)
			case "CompareAndDelete":
				in.v = written[r.Choose(len(written), "map-old")]
			}
			ins[i] = in
		}
		pace := r.Choose(3, "map-pace")
		sim.GoNamed(fmt.Sprintf("mapuser%d", t), func() {
			Spin(pace, "map-pace")
			for _, in := range ins {
				var out mapOut
				sim.Yield("map-op")
				inv := sim.Seq()
				switch in.op {
				case "Load":
					out.v, out.ok = m.Load(in.key)
				case "Store":
					m.Store(in.key, in.v)
				case "Delete":
					m.Delete(in.key)
				case "LoadOrStore":
					out.v, out.ok = m.LoadOrStore(in.key, in.v)
				case "LoadAndDelete":
					out.v, out.ok = m.LoadAndDelete(in.key)
				case "Swap":
					out.v, out.ok = m.Swap(in.key, in.v)
				case "CompareAndSwap":
					out.ok = m.CompareAndSwap(in.key, in.v, in.v2)
				case "CompareAndDelete":
					out.ok = m.CompareAndDelete(in.key, in.v)
				}
				sim.Yield("map-op-done")
				ret := sim.Seq()
				r.Hist(in.op, in.key, in.v, in.v2, out.v, out.ok)
				ops = append(ops, porcupine.Operation{ClientId: t, Input: in, Call: int64(inv), Output: out, Return: int64(ret)})
			}
			done++
		})
	}
	sim.WaitStuck("map-concurrent")
	if r.Failed() {
		return
	}
	if done != ntask {
		r.Violate("C18", "map/stuck", "only %d of %d users of the map finished: %v", done, ntask, sim.TaskStates())
		return
	}
	r.PostRun = func() {
		r.Probe("porcupine-checked")
		if !porcupine.CheckOperations(typedMapModel, ops) {
			s := ""
			for _, o := range ops {
				s += fmt.Sprintf("[%d,%d] user%d %s; ", o.Call, o.Return, o.ClientId, typedMapModel.DescribeOperation(o.Input, o.Output))
			}
			r.Violate("C18", "map/not-linearizable", "the concurrent history of one xsync.Map[int,int] is not linearizable as a map: %s", s)
		}
	}
}
