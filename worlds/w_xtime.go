package worlds

import (
	"fmt"
	stdtime "time"

	"github.com/bradenaw/juniper/xtime"

	"verifsim/context"
	"verifsim/sim"
	"verifsim/time"
)

// World `xtime` (C20): SleepContext against deadlines/cancellation on the simulated clock, and
// JitterTicker with a consumer, Reset and Stop racing the timer callback.

func init() {
	Register(&World{Name: "xtime", Episodes: true, TaskStalls: true, Props: []string{"C20"}, Concurrent: true, Timed: true, MaxSteps: 6000, Run: xtimeWorld})
	ExpectedProbes["xtime"] = []string{"sleep-d-nonpositive", "sleep-deadline-too-soon", "sleep-deadline-far", "sleep-cancelled-midway", "sleep-full", "ticker-jitter-zero", "ticker-jitter-max", "ticker-reset", "ticker-stop-with-callback-pending", "ticker-tick-dropped-or-buffered", "ticker-stopped-twice"}
}

func xtimeWorld(r *R) {
	if r.Choose(24, "huge-ticker") == 23 {
		tickerHugeScenario(r)
		return
	}
	if r.Choose(2, "scenario") == 0 {
		sleepScenario(r)
	} else {
		tickerScenario(r)
	}
}

// tickerHugeScenario: d and jitter near the top of the Duration range ("any d > 0 and any jitter with
// 0 <= jitter < d"). Such a ticker must be constructible and resettable without a panic and, its
// period being centuries, must stay silent while we watch.
func tickerHugeScenario(r *R) {
	r.Probe("ticker-huge-parameters")
	const maxD = time.Duration(1<<63 - 1)
	pick := func() (time.Duration, time.Duration) {
		d := []time.Duration{maxD, maxD, maxD - 1, 1 << 62}[r.Choose(4, "huge-d")]
		j := []time.Duration{1 << 62, 1 << 61, d - 1, 1<<62 + 12345}[r.Choose(4, "huge-j")]
		if j >= d {
			j = d - 1
		}
		return d, j
	}
	var tk *xtime.JitterTicker
	try := func(what string, d, j time.Duration, f func()) bool {
		ok := true
		func() {
			defer func() {
				if p := recover(); p != nil {
					passThrough(p)
					if p == sim.Killed {
						panic(p)
					}
					ok = false
					r.Violate("C20", "ticker/panic/"+what+"/huge-parameters", "%s(d=%v, jitter=%v) panicked although d > 0 and 0 <= jitter < d: %v", what, d, j, p)
				}
			}()
			f()
		}()
		return ok
	}
	silent := func(after string, d, j time.Duration) bool {
		since := stdtime.Now() // New/Reset has just returned
		sim.Sleep(time.Duration(1+r.Choose(5, "watch"))*time.Second, "huge-watch")
		if d-j < time.Minute {
			return true // (jitter almost as large as d: an early tick is in order)
		}
		select {
		case ts := <-tk.C:
			if !ts.After(since) {
				return true // sent under the parameters in force before this New/Reset returned
			}
			r.Violate("C20", "ticker/ticks-too-close/huge-interval", "a ticker with d=%v jitter=%v (after %s) ticked within seconds; consecutive ticks must be at least d-jitter = %v apart", d, j, after, d-j)
			return false
		default:
			return true
		}
	}
	d, j := pick()
	if !try("NewJitterTicker", d, j, func() { tk = xtime.NewJitterTicker(d, j) }) || !silent("NewJitterTicker", d, j) {
		return
	}
	for i, n := 0, r.Choose(3, "huge-resets"); i < n; i++ {
		d, j = pick()
		if !try("Reset", d, j, func() { tk.Reset(d, j) }) || !silent("Reset", d, j) {
			return
		}
	}
	tk.Stop()
	r.Hist("huge-ticker-done")
}

// sleepScenario makes one to three SleepContext calls one after the other in the same run (state
// that survives a call, such as pooled timers, must not leak into the next one).
func sleepScenario(r *R) {
	n := 1 + r.Choose(3, "sleeps")
	for i := 0; i < n && !r.Failed(); i++ {
		oneSleep(r)
	}
}

// hiddenDeadline is a context whose Deadline method reports none although it ends by deadline - what
// a context merged from several parents, or a wrapper with a Deadline of its own, looks like.
type hiddenDeadline struct{ context.Context }

func (hiddenDeadline) Deadline() (time.Time, bool) { return time.Time{}, false }

// reportedDeadline is a context that reports a deadline without expiring at it by itself.
type reportedDeadline struct {
	context.Context
	at stdtime.Time
}

func (c reportedDeadline) Deadline() (time.Time, bool) { return c.at, true }

func oneSleep(r *R) {
	strict := r.Cfg.StallPer1k == 0 && r.Cfg.LatePer1k == 0 && r.Cfg.ClockTickPer1k == 0 && r.Cfg.TaskStallPer1k == 0
	d := []time.Duration{50 * time.Millisecond, -time.Second, 0, time.Millisecond, 3 * time.Second, time.Hour}[r.Choose(6, "d")]
	kind := r.Choose(12, "ctx") // 11: ends inside d with DeadlineExceeded, but its Deadline() reports none (a merged / wrapping context); 9: cancelled mid-sleep with a cause of its own, 10: already cancelled with a cause; 0 background, 1 deadline far, 2 deadline inside d, 3 deadline just inside, 4 deadline just beyond, 5 pre-cancelled, 6 cancelled mid-sleep, 7 deadline far AND cancelled mid-sleep, 8 deadline far AND already cancelled
	root := NewCtx(nil, "root")
	var ctx *Ctx
	var remaining time.Duration
	hasDeadline := false
	pos := d
	if pos < 0 {
		pos = 0
	}
	switch kind {
	case 0:
		ctx = root
	case 1:
		remaining = pos*2 + time.Duration(1+r.Choose(5, "far"))*time.Second
		ctx = NewDeadlineCtxExact(root, "far", remaining)
		hasDeadline = true
	case 2:
		remaining = pos / time.Duration(2+r.Choose(3, "frac"))
		ctx = NewDeadlineCtxExact(root, "inside", remaining)
		hasDeadline = true
	case 3:
		remaining = pos - time.Nanosecond
		ctx = NewDeadlineCtxExact(root, "just-inside", remaining)
		hasDeadline = true
	case 4:
		remaining = pos + time.Nanosecond
		if r.Choose(2, "exactly-d") == 1 {
			// The deadline is exactly d away: not closer than d. (A context that only *reports* that
			// deadline: one that also expired then would make its timer and the sleep's fire at the
			// same simulated instant, and which of two simultaneously ready cases a blocked select
			// wakes up with is the Go runtime's choice, not the tape's.)
			remaining = pos
			ctx = NewCtx(root, "reports-deadline-exactly-d-away")
			ctx.DeadlineAt = int64(sim.Now()) + int64(remaining)
			ctx.C = reportedDeadline{ctx.C, stdtime.Now().Add(stdtime.Duration(remaining))}
			hasDeadline = true
			r.Probe("sleep-deadline-exactly-d-away")
			break
		}
		ctx = NewDeadlineCtxExact(root, "just-beyond", remaining)
		hasDeadline = true
	case 11:
		remaining = pos / time.Duration(2+r.Choose(3, "frac"))
		ctx = NewDeadlineCtxExact(root, "hidden-deadline", remaining)
		ctx.C = hiddenDeadline{ctx.C}
		r.Probe("sleep-context-hides-its-deadline")
	case 5:
		ctx = PreCancelled(root, "pre")
		r.Fault("ctx_precancelled")
	case 6:
		ctx = NewCtx(root, "mid")
	case 9, 10:
		ctx = NewCauseCtx(root, "cause", NewErr("my-cause"))
		if kind == 10 {
			ctx.Cancel()
			r.Fault("ctx_precancelled")
		}
	case 7, 8:
		remaining = pos*2 + time.Duration(1+r.Choose(5, "far"))*time.Second
		ctx = NewDeadlineCtxExact(root, "far-cancelled", remaining)
		hasDeadline = true
		if kind == 8 {
			ctx.Cancel()
			r.Fault("ctx_precancelled")
		}
	}
	if ctx != root && !hasDeadline && kind != 11 && r.Choose(6, "own-err") == 5 {
		// the caller's own Context implementation, whose Err() is a value of its own
		ctx.OwnErr()
		r.Probe("sleep-context-with-own-error-value")
	}
	cancelAfter := time.Duration(0)
	if kind == 6 || kind == 7 || kind == 9 {
		cancelAfter = pos / time.Duration(2+r.Choose(3, "cfrac"))
		c := ctx
		sim.GoNamed("canceller", func() {
			sim.Sleep(cancelAfter, "canceller-sleep")
			r.Fault("ctx_cancel_midcall")
			c.Cancel()
		})
	}
	r.Logf("config: SleepContext d=%v ctxkind=%d remaining=%v cancelAfter=%v strict=%v", d, kind, remaining, cancelAfter, strict)
	cs := &Calls{r: r}
	done := false
	sim.GoNamed("sleeper", func() {
		c := cs.Begin("sleeper", "SleepContext", int(d/time.Millisecond), ctx)
		// the deadline, seen from the moment of the call
		var rem time.Duration
		if hasDeadline {
			rem = time.Duration(ctx.DeadlineAt - c.InvAt)
		}
		deadBefore := ctx.C.Err() != nil // the context had ended before the call was made
		err := xtime.SleepContext(ctx.C, d)
		cs.End(c, 0, err == nil, err)
		elapsed := time.Duration(c.RetAt - c.InvAt)
		closer := hasDeadline && d > 0 && rem < d
		_, tooSoon := err.(xtime.DeadlineTooSoonError)
		// in runs whose clock moves between two readings, "at once" is a few nanoseconds and the
		// library sees the deadline that much closer than the harness did when it made the call
		slack := time.Duration(0)
		if r.Cfg.ClockTickPer1k > 0 {
			slack = 40 * time.Nanosecond
			if r.Cfg.StallPer1k > 0 || r.Cfg.TaskStallPer1k > 0 {
				// a moving clock is a schedule point, and this run may stall anybody at one
				slack = 1<<62
			}
		}
		remSlack := slack // (the same goes for how far away the library finds the deadline)
		switch {
		case d <= 0:
			r.Probe("sleep-d-nonpositive")
			if err != nil || elapsed > slack {
				r.Violate("C20", "sleep/nonpositive-d", "SleepContext(d=%v) returned %v after %v; must return nil at once", d, err, elapsed)
			}
		case closer:
			r.Probe("sleep-deadline-too-soon")
			if !tooSoon {
				r.Violate("C20", "sleep/deadline-closer-not-reported", "the context's deadline is %v away, d is %v, but SleepContext returned %v after %v instead of DeadlineTooSoonError", rem, d, err, elapsed)
			} else if elapsed > slack {
				r.Violate("C20", "sleep/deadline-too-soon-not-immediate", "DeadlineTooSoonError was returned only after %v", elapsed)
			}
		case tooSoon && hasDeadline && d > 0 && rem-remSlack < d:
			// the deadline was at most a clock tick further away than d when the call was made
			if elapsed > slack {
				r.Violate("C20", "sleep/deadline-too-soon-not-immediate", "DeadlineTooSoonError was returned only after %v", elapsed)
			}
		case tooSoon:
			r.Violate("C20", "sleep/deadline-too-soon-spurious", "SleepContext returned DeadlineTooSoonError although the deadline is %v away (hasDeadline=%v) and d is only %v", rem, hasDeadline, d)
		case err == nil && deadBefore:
			// whatever the timing: a context that had already ended when the call was made ended
			// before d elapsed
			r.Violate("C20", "sleep/nil-although-context-ended-before-the-call", "SleepContext(d=%v) returned nil after %v although its context had already ended (%v) when the call was made", d, elapsed, ctx.C.Err())
		case err == nil:
			r.Probe("sleep-full")
			if hasDeadline {
				r.Probe("sleep-deadline-far")
			}
			if elapsed < d {
				r.Violate("C20", "sleep/returned-early", "SleepContext(d=%v) returned nil after only %v", d, elapsed)
			} else if strict && elapsed != d {
				r.Violate("C20", "sleep/returned-late", "SleepContext(d=%v) returned nil after %v in a run without injected delays", d, elapsed)
			}
			{ // (in every run: whatever was slow, a context that ended before d had elapsed ended first)
				if at, dead := ctx.EndedBy(); dead && at < c.InvAt+int64(d) {
					r.Violate("C20", "sleep/ignored-context", "SleepContext(d=%v) returned nil although its context ended %v after the call", d, time.Duration(at-c.InvAt))
				}
			}
		default:
			// must be the context's own error, the context must have ended, and no earlier than it ended
			if ctx.C.Err() == nil || err != ctx.C.Err() {
				r.Violate("C20", "sleep/wrong-error", "SleepContext returned %v; the context's error is %v", err, ctx.C.Err())
				break
			}
			if kind == 6 || kind == 7 || kind == 9 {
				r.Probe("sleep-cancelled-midway")
			}
			at, _ := ctx.ExpiredAt()
			want := time.Duration(at - c.InvAt)
			if want < 0 {
				want = 0
			}
			if strict && elapsed != want {
				r.Violate("C20", "sleep/context-error-not-prompt", "the context ended %v after the call but SleepContext returned its error after %v", want, elapsed)
			}
		}
		done = true
	})
	sim.WaitStuck("sleep-phase1")
	if !done && !r.Failed() {
		r.Violate("C20", "sleep/stuck", "SleepContext never returns: %v", sim.TaskStates())
	}
}

type tickParams struct {
	at     time.Duration // when New/Reset was invoked
	sure   time.Duration // when it returned (-1: not yet): from then on these parameters are certainly in force
	d, jit time.Duration
}

func tickerScenario(r *R) {
	unit := 10 * time.Millisecond
	pick := func() (time.Duration, time.Duration) {
		d := time.Duration(1+r.Choose(6, "tick-d")) * unit
		var j time.Duration
		switch r.Choose(4, "tick-jitter") {
		case 0:
			j = 0
			r.Probe("ticker-jitter-zero")
		case 1:
			j = d - 1
			r.Probe("ticker-jitter-max")
		case 2:
			j = d / 2
		default:
			j = time.Duration(r.Choose(int(d), "tick-jitter-ns"))
		}
		return d, j
	}
	d, j := pick()
	var params []tickParams
	var tk *xtime.JitterTicker
	safely := func(what string, f func()) bool {
		ok := true
		func() {
			defer func() {
				if p := recover(); p != nil {
					passThrough(p)
					if p == sim.Killed {
						panic(p)
					}
					ok = false
					jc := "jitter-positive"
					if j == 0 {
						jc = "jitter-zero"
					}
					r.Violate("C20", "ticker/panic/"+what+"/"+jc, "%s(d=%v, jitter=%v) panicked: %v", what, d, j, p)
				}
			}()
			f()
		}()
		return ok
	}
	params = append(params, tickParams{sim.Now(), -1, d, j})
	r.Logf("config: NewJitterTicker(d=%v, jitter=%v)", d, j)
	if !safely("NewJitterTicker", func() { tk = xtime.NewJitterTicker(d, j) }) {
		return
	}
	params[0].sure = sim.Now()
	base := time.Now()
	start := sim.Now()
	stamp := func(t time.Time) time.Duration { return start + t.Sub(base) }
	nticks := 2 + r.Choose(6, "nticks")
	nresets := r.Choose(3, "nresets")
	stopped := false
	var stopRetAt time.Duration
	var lastTick time.Duration = -1
	check := func(ts time.Duration) {
		// spacing against the parameters in force when this tick was scheduled
		// The parameters certainly in force are those of the last New/Reset that had returned before
		// the tick; a Reset in progress at that instant may or may not have taken effect: take the laxer.
		var p tickParams
		for _, q := range params {
			switch {
			case q.sure >= 0 && q.sure < ts:
				p = q
			case q.at <= ts && (p.d == 0 || q.d-q.jit < p.d-p.jit):
				p = q
			}
		}
		r.Logf("tick at %v (params d=%v jitter=%v)", ts, p.d, p.jit)
		r.Hist("tick")
		if lastTick >= 0 && ts-lastTick < p.d-p.jit {
			jc := "jitter-positive"
			if p.jit == 0 {
				jc = "jitter-zero"
			}
			r.Violate("C20", "ticker/ticks-too-close/"+jc, "two consecutive ticks are %v apart (at %v and %v); d=%v jitter=%v allows no less than %v", ts-lastTick, lastTick, ts, p.d, p.jit, p.d-p.jit)
		}
		lastTick = ts
	}
	consumerDone := false
	sim.GoNamed("consumer", func() {
		defer func() { consumerDone = true }()
		for k := 0; k < nticks && !stopped; k++ {
			if r.Choose(3, "consumer-pause") == 2 {
				sim.Sleep(time.Duration(1+r.Choose(12, "pause-d"))*13*time.Millisecond, "consumer-pause")
				r.Probe("ticker-tick-dropped-or-buffered")
			}
			t := sim.Pre("consumer-recv")
			sim.BeginOp(t)
			tm := stdtime.NewTimer(5 * stdtime.Second)
			select {
			case ts := <-tk.C:
				tm.Stop()
				sim.EndOp(t)
				if stopped && stamp(ts) > stopRetAt {
					r.Violate("C20", "ticker/tick-after-stop", "a tick stamped %v was sent after Stop had returned at %v", stamp(ts), stopRetAt)
					return
				}
				check(stamp(ts))
			case <-tm.C:
				sim.EndOp(t)
				if !stopped {
					r.Violate("C20", "ticker/no-tick", "no tick within 5s although d=%v", d)
				}
				return
			case <-sim.KillC(t):
				tm.Stop()
				sim.Die()
			}
		}
	})
	sim.GoNamed("controller", func() {
		for i := 0; i < nresets; i++ {
			sim.Sleep(time.Duration(1+r.Choose(15, "reset-at"))*11*time.Millisecond, "controller-sleep")
			Spin(r.Choose(4, "reset-spin"), "controller-pace")
			if r.Choose(4, "rejected-reset") == 3 {
				// a Reset with arguments the documentation rejects: it panics and changes nothing
				bd, bj := time.Millisecond, d+j+time.Duration(r.Choose(3, "bad-j"))*time.Millisecond
				if r.Choose(3, "bad-kind") == 2 {
					bd, bj = -time.Millisecond, 0
				}
				r.Probe("ticker-rejected-reset")
				panicked := false
				func() {
					defer func() {
						if p := recover(); p != nil {
							passThrough(p)
							if p == sim.Killed {
								panic(p)
							}
							panicked = true
						}
					}()
					tk.Reset(bd, bj)
				}()
				r.Hist("rejected-reset", panicked)
				if !panicked {
					r.Violate("C20", "ticker/invalid-reset-accepted", "Reset(d=%v, jitter=%v) returned normally; the documentation says it panics", bd, bj)
					return
				}
				continue // the ticker goes on under the parameters it had
			}
			d, j = pick()
			r.Probe("ticker-reset")
			r.Logf("Reset(d=%v, jitter=%v)", d, j)
			ok := safely("Reset", func() {
				sim.Yield("Reset")
				params = append(params, tickParams{sim.Now(), -1, d, j})
				tk.Reset(d, j)
				params[len(params)-1].sure = sim.Now()
			})
			if !ok {
				return
			}
		}
		sim.Sleep(time.Duration(r.Choose(20, "stop-at"))*11*time.Millisecond, "controller-sleep")
		Spin(r.Choose(6, "stop-spin"), "controller-pace")
		for _, t := range LibraryTasks() {
			_ = t
			r.Probe("ticker-stop-with-callback-pending")
		}
		r.Logf("Stop")
		tk.Stop()
		stopRetAt = sim.Now()
		stopped = true
		r.Hist("stop")
		if r.Choose(3, "stop-again") == 2 {
			// Stop on a stopped ticker (a deferred Stop after an explicit one) is one more timing of
			// Stop: nothing to turn off, and nothing to panic about
			r.Probe("ticker-stopped-twice")
			safely("Stop", func() { tk.Stop() })
			r.Hist("stop-again")
		}
	})
	// wait for Stop, then watch the channel for 20 further periods
	sim.WaitUntil("main-wait-stop", func() bool { return stopped || r.Failed() })
	if r.Failed() {
		return
	}
	sim.WaitUntil("main-wait-consumer", func() bool { return consumerDone })
	// at most one tick may still be buffered; it must have been sent before Stop returned
	select {
	case ts := <-tk.C:
		if stamp(ts) > stopRetAt {
			r.Violate("C20", "ticker/tick-after-stop", "a buffered tick stamped %v was sent after Stop had returned at %v", stamp(ts), stopRetAt)
			return
		}
	default:
	}
	sim.Sleep(20*(d+j)+time.Second, "main-watch")
	select {
	case ts := <-tk.C:
		r.Violate("C20", "ticker/tick-after-stop", "a tick stamped %v arrived after Stop had returned at %v and the buffered tick had been drained", stamp(ts), stopRetAt)
	default:
	}
	if r.Failed() || r.Choose(3, "restart") != 2 {
		return
	}
	// a later phase of the same ticker: Reset after Stop starts it again, under the same rules
	r.Probe("ticker-restarted-after-stop")
	d, j = pick()
	resetInv := sim.Now()
	if !safely("Reset", func() { tk.Reset(d, j) }) {
		return
	}
	strict := r.Cfg.StallPer1k == 0 && r.Cfg.LatePer1k == 0 && r.Cfg.ClockTickPer1k == 0 && r.Cfg.TaskStallPer1k == 0
	last := resetInv
	for k := 0; k < 3; k++ {
		t := sim.Pre("restart-recv")
		sim.BeginOp(t)
		tm := stdtime.NewTimer(stdtime.Duration(2*(d+j)) + 5*stdtime.Second)
		select {
		case ts := <-tk.C:
			tm.Stop()
			sim.EndOp(t)
			if gap := stamp(ts) - last; gap < d-j {
				r.Violate("C20", "ticker/ticks-too-close/after-restart", "after Stop and Reset(d=%v, jitter=%v) a tick came %v after the previous event; at least d-jitter = %v is required", d, j, gap, d-j)
				return
			}
			last = stamp(ts)
		case <-tm.C:
			sim.EndOp(t)
			r.Violate("C20", "ticker/no-tick-after-restart", "no tick within %v of Reset(d=%v, jitter=%v) on a stopped ticker", 2*(d+j)+5*time.Second, d, j)
			return
		case <-sim.KillC(t):
			tm.Stop()
			sim.Die()
		}
	}
	_ = strict
	tk.Stop()
	stop2 := sim.Now()
	select {
	case ts := <-tk.C:
		if stamp(ts) > stop2 {
			r.Violate("C20", "ticker/tick-after-stop", "after the restart: a buffered tick stamped %v was sent after the second Stop had returned at %v", stamp(ts), stop2)
			return
		}
	default:
	}
	sim.Sleep(20*(d+j)+time.Second, "main-watch-2")
	select {
	case ts := <-tk.C:
		r.Violate("C20", "ticker/tick-after-stop", "after the restart: a tick stamped %v arrived after the second Stop had returned at %v", stamp(ts), stop2)
	default:
	}
	_ = fmt.Sprint
	_ = context.Background
}
